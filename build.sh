#!/bin/sh
# Build govc offline with the pre-installed go1.26.8 toolchain.
set -e
cd "$(dirname "$0")/govc"
export PATH=/opt/veriftools/go1.26.8/bin:$PATH GOFLAGS=-mod=mod GOPROXY=off GOSUMDB=off GOTOOLCHAIN=local
mkdir -p ../bin
go build -o ../bin/govc .
