package main

import (
	"bytes"
	"syscall"
	"context"
	"fmt"
	"os"
	"os/exec"
	"path/filepath"
	"strings"
	"sync"
	"time"
)

type Result struct {
	Obl     *Obligation
	Status  string // discharged | failed | unknown | error
	Answer  string // unsat | sat | unknown | timeout
	Solver  string
	TimeS   float64
	Model   string
	Output  string
	SMTFile string
	Bytes   int
}

type solverSpec struct {
	name string
	args func(timeoutS int, file string) []string
}

var solvers = []solverSpec{
	{"z3-new-5.1.0", func(t int, f string) []string { return []string{"z3-new", fmt.Sprintf("-T:%d", t), f} }},
	{"z3-4.8.12", func(t int, f string) []string { return []string{"/usr/bin/z3", fmt.Sprintf("-T:%d", t), f} }},
	{"cvc5-1.0", func(t int, f string) []string {
		return []string{"cvc5", fmt.Sprintf("--tlimit=%d", t*1000), "--produce-models", f}
	}},
}

// runSolver runs one solver on one file. The limit is a limit on the solver's CPU time (ulimit -t), not on wall-clock
// time: a verdict must not depend on how busy the machine is (16 checks may run side by side). The wall-clock limit
// is only a generous safety net.
func runSolver(ctx context.Context, sp solverSpec, timeoutS int, file string) (answer, out string, dur float64) {
	wallS := timeoutS*8 + 10
	args := sp.args(wallS, file)
	cctx, cancel := context.WithTimeout(ctx, time.Duration(wallS+2)*time.Second)
	defer cancel()
	sh := fmt.Sprintf("ulimit -t %d; exec \"$@\"", timeoutS)
	cmd := exec.CommandContext(cctx, "/bin/sh", append([]string{"-c", sh, "sh"}, args...)...)
	var buf bytes.Buffer
	cmd.Stdout = &buf
	cmd.Stderr = &buf
	t0 := time.Now()
	cmd.Run()
	dur = time.Since(t0).Seconds()
	if ps := cmd.ProcessState; ps != nil {
		if cpu := (ps.UserTime() + ps.SystemTime()).Seconds(); cpu > 0 {
			dur = cpu
		}
	}
	out = buf.String()
	first := strings.TrimSpace(strings.SplitN(out, "\n", 2)[0])
	switch first {
	case "unsat", "sat", "unknown":
		return first, out, dur
	case "timeout":
		return "timeout", out, dur
	}
	if cctx.Err() != nil {
		return "timeout", out, dur
	}
	if ps := cmd.ProcessState; ps != nil {
		if ws, ok := ps.Sys().(syscall.WaitStatus); ok && ws.Signaled() {
			return "timeout", out, dur // CPU limit reached (SIGXCPU / SIGKILL)
		}
	}
	return "error", out, dur
}

// Discharge decides one obligation with the solver portfolio.
func Discharge(o *Obligation, dir string, quickS, slowS int) *Result {
	r := &Result{Obl: o}
	if o.Err != "" {
		r.Status = "error"
		r.Output = o.Err
		return r
	}
	if o.Goal.S == "false" && !o.ExpectSat {
		r.Status, r.Answer, r.Solver = "discharged", "unsat", "simplifier"
		return r
	}
	text := o.Script.Render(o.Prefix, o.Goal, nil)
	r.Bytes = len(text)
	fname := filepath.Join(dir, sanitize(o.Name)+".smt2")
	if len(fname) > 200 {
		fname = fname[:200] + ".smt2"
	}
	os.WriteFile(fname, []byte(text), 0o644)
	r.SMTFile = fname
	want := "unsat"
	if o.ExpectSat {
		want = "sat"
	}
	// stage 1: newest z3 alone, short limit
	ans, out, dur := runSolver(context.Background(), solvers[0], quickS, fname)
	r.TimeS += dur
	if ans == "unsat" || ans == "sat" {
		r.Answer, r.Solver, r.Output = ans, solvers[0].name, out
	} else if o.ExpectSat || o.QuickOnly {
		// cover queries (vacuity guards) get the short limit only: finding a model of a script
		// with quantifiers is often out of reach, and only a quick `unsat` is informative
		r.Answer, r.Solver, r.Output = ans, solvers[0].name, out
	} else {
		// stage 2: race all three with the long limit
		type res struct {
			ans, out, name string
			dur             float64
		}
		ctx, cancel := context.WithCancel(context.Background())
		ch := make(chan res, len(solvers))
		for _, sp := range solvers {
			sp := sp
			go func() {
				a, o2, d := runSolver(ctx, sp, slowS, fname)
				ch <- res{a, o2, sp.name, d}
			}()
		}
		r.Answer = ans
		r.Output = out
		r.Solver = solvers[0].name
		var maxd float64
		for range solvers {
			x := <-ch
			if x.dur > maxd {
				maxd = x.dur
			}
			if x.ans == "unsat" || x.ans == "sat" {
				r.Answer, r.Solver, r.Output = x.ans, x.name, x.out
				break
			}
			if r.Answer == "error" && x.ans != "error" {
				r.Answer, r.Output, r.Solver = x.ans, x.out, x.name
			}
		}
		cancel()
		r.TimeS += maxd
	}
	if o.ExpectSat && o.HasPre && r.Answer == "unsat" {
		// unreachable after the callee's assumed clauses: vacuous only if it was reachable before them
		text0 := o.Script.Render(o.PrePrefix, o.PreGoal, nil)
		f0 := fname + ".pre.smt2"
		os.WriteFile(f0, []byte(text0), 0o644)
		a0, _, d0 := runSolver(context.Background(), solvers[0], quickS, f0)
		r.TimeS += d0
		os.Remove(f0)
		if a0 == "unsat" {
			r.Status, r.Answer = "discharged", "dead-path"
			return r
		}
	}
	switch {
	case r.Answer == want:
		r.Status = "discharged"
	case r.Answer == "sat" || r.Answer == "unsat":
		r.Status = "failed"
	case o.ExpectSat:
		// a cover query that cannot be decided is not evidence of vacuity
		r.Status = "discharged"
		r.Answer = "unknown(cover)"
	default:
		r.Status = "unknown"
	}
	if r.Status == "failed" && r.Answer == "sat" && len(o.Values) > 0 {
		// ask again for the interesting values
		text2 := o.Script.Render(o.Prefix, o.Goal, o.Values)
		f2 := fname + ".model.smt2"
		os.WriteFile(f2, []byte(text2), 0o644)
		_, out2, _ := runSolver(context.Background(), solvers[0], slowS, f2)
		r.Model = out2
		os.Remove(f2)
	}
	return r
}

// DischargeAll runs the obligations in parallel.
func DischargeAll(obls []*Obligation, dir string, quickS, slowS, workers int) []*Result {
	os.MkdirAll(dir, 0o755)
	results := make([]*Result, len(obls))
	var wg sync.WaitGroup
	sem := make(chan struct{}, workers)
	for i, o := range obls {
		wg.Add(1)
		sem <- struct{}{}
		go func(i int, o *Obligation) {
			defer wg.Done()
			defer func() { <-sem }()
			results[i] = Discharge(o, dir, quickS, slowS)
		}(i, o)
	}
	wg.Wait()
	return results
}
