package main

import (
	"context"
	"encoding/json"
	"fmt"
	"go/types"
	"os"
	"os/exec"
	"path/filepath"
	"strings"
	"time"
)

// searchScalarFailingInput: when a failed `ensures` obligation of a plain function over integers and
// booleans comes back without a model (timeout / unknown - typical for nonlinear 64-bit arithmetic),
// look for a failing input directly: the REAL function is run (injected test, -overlay) on a table of
// boundary values, and the clause is evaluated on each row's inputs and real outputs with the solver
// used as a calculator (everything pinned). A row that satisfies the function's preconditions and
// falsifies the clause is a failing input for the real code. Finding none proves nothing.
func searchScalarFailingInput(g *Gen, r *Result, dir, base string) *goReplay {
	o := r.Obl
	fx := o.Fx
	if fx == nil || fx.fn == nil || o.Kind != "ensures" || o.Expr == nil {
		return nil
	}
	fn := fx.fn
	if fn.Pkg == nil || fn.Parent() != nil || fn.Signature.Recv() != nil || fn.Signature.Variadic() {
		return nil
	}
	scalar := func(t types.Type) *types.Basic {
		b, ok := t.Underlying().(*types.Basic)
		if ok && b.Info()&(types.IsInteger|types.IsBoolean) != 0 {
			return b
		}
		return nil
	}
	rs := fn.Signature.Results()
	if len(fn.Params) == 0 || len(fn.Params) > 4 || rs.Len() == 0 {
		return nil
	}
	for _, p := range fn.Params {
		if scalar(p.Type()) == nil {
			return nil
		}
	}
	for i := 0; i < rs.Len(); i++ {
		if scalar(rs.At(i).Type()) == nil {
			return nil
		}
	}
	rep := &goReplay{}
	var log strings.Builder
	defer func() {
		if rc := recover(); rc != nil {
			fmt.Fprintf(&log, "search for a failing input failed: %v\n", rc)
			rep.Log = log.String()
		}
	}()
	// candidate values
	u64 := []string{"0", "1", "2", "3", "7", "10", "99", "100", "101", "990", "1000", "65535", "4294967295", "4294967296", "18014398509481984",
		"18446744073709551", "18632064720918738", "9223372036854775807", "9223372036854775808", "18446744073709551614", "18446744073709551615"}
	cands := make([][]string, len(fn.Params))
	for i, p := range fn.Params {
		b := scalar(p.Type())
		if b.Info()&types.IsBoolean != 0 {
			cands[i] = []string{"false", "true"}
			continue
		}
		_, hi, _ := intRange(b)
		for _, v := range u64 {
			if len(v) < len(hi) || (len(v) == len(hi) && v <= hi) {
				cands[i] = append(cands[i], v)
			}
		}
		if b.Info()&types.IsUnsigned == 0 {
			cands[i] = append(cands[i], "-1", "-2", "-100")
		}
	}
	total := 1
	for _, c := range cands {
		total *= len(c)
	}
	const maxRows = 1500
	var rows [][]string
	step := 1
	if total > maxRows {
		step = total/maxRows + 1
	}
	for k := 0; k < total; k += step {
		idx := k
		row := make([]string, len(cands))
		for i := range cands {
			row[i] = cands[i][idx%len(cands[i])]
			idx /= len(cands[i])
		}
		rows = append(rows, row)
	}
	// the test: one call per row, panics skipped
	var body strings.Builder
	fmt.Fprintf(&body, "package %s\n\nimport (\n\t\"fmt\"\n\t\"testing\"\n)\n\nfunc TestGovcSearch(t *testing.T) {\n", fn.Pkg.Pkg.Name())
	tq := func(t types.Type) string { return types.TypeString(t, func(p *types.Package) string { return "" }) }
	for i, row := range rows {
		var args []string
		for j, v := range row {
			args = append(args, fmt.Sprintf("%s(%s)", tq(fn.Params[j].Type()), v))
		}
		var rn, pf []string
		for k := 0; k < rs.Len(); k++ {
			rn = append(rn, fmt.Sprintf("r%d", k))
			pf = append(pf, "%v")
		}
		fmt.Fprintf(&body, "\tfunc() {\n\t\tdefer func() { recover() }()\n\t\t%s := %s(%s)\n\t\tfmt.Printf(\"GOVC-ROW %d %s\\n\", %s)\n\t}()\n",
			strings.Join(rn, ", "), fn.Name(), strings.Join(args, ", "), i, strings.Join(pf, " "), strings.Join(rn, ", "))
	}
	body.WriteString("\tfmt.Println(\"GOVC-DONE\")\n}\n")
	pkgDir := filepath.Join(g.repo, shortPkg(fn.Pkg.Pkg.Path()))
	work, _ := os.MkdirTemp("", "govc-search")
	defer os.RemoveAll(work)
	tf := filepath.Join(work, "zz_govc_search_test.go")
	os.WriteFile(tf, []byte(body.String()), 0o644)
	ov, _ := json.Marshal(map[string]any{"Replace": map[string]string{filepath.Join(pkgDir, "zz_govc_search_test.go"): tf}})
	ovf := filepath.Join(work, "overlay.json")
	os.WriteFile(ovf, ov, 0o644)
	ctx, cancel := context.WithTimeout(context.Background(), 180*time.Second)
	defer cancel()
	cmd := exec.CommandContext(ctx, "go", "test", "-overlay", ovf, "-vet=off", "-count=1", "-timeout", "120s", "-run", "^TestGovcSearch$", "-v", ".")
	cmd.Dir = pkgDir
	env := []string{}
	for _, e := range os.Environ() {
		if strings.HasPrefix(e, "GOFLAGS=") || strings.HasPrefix(e, "GOTOOLCHAIN=") || strings.HasPrefix(e, "GOSUMDB=") || strings.HasPrefix(e, "PATH=") {
			continue
		}
		env = append(env, e)
	}
	env = append(env, "GOFLAGS=-mod=mod", "PATH="+strings.ReplaceAll(os.Getenv("PATH"), "/opt/veriftools/go1.26.8/bin:", ""))
	cmd.Env = env
	outb, _ := cmd.CombinedOutput()
	outs := string(outb)
	if !strings.Contains(outs, "GOVC-DONE") {
		fmt.Fprintf(&log, "the search test did not run to completion:\n%s\n", firstLines(outs, 12))
		rep.Log = log.String()
		return rep
	}
	real := map[int][]string{}
	for _, l := range strings.Split(outs, "\n") {
		if strings.HasPrefix(l, "GOVC-ROW ") {
			f := strings.Fields(l)
			var i int
			fmt.Sscanf(f[1], "%d", &i)
			real[i] = f[2:]
		}
	}
	// clause and preconditions over the parameters and fresh result constants
	lit := func(v string) string {
		if strings.HasPrefix(v, "-") {
			return "(- " + v[1:] + ")"
		}
		return v
	}
	results := make([]Term, rs.Len())
	var decls []string
	for i := 0; i < rs.Len(); i++ {
		srt := fx.tc.SortOf(rs.At(i).Type())
		name := fmt.Sprintf("rr!%d", i)
		decls = append(decls, fmt.Sprintf("(declare-fun %s () %s)", name, srt))
		results[i] = Term{name, srt}
	}
	saved := fx.sc.body
	cut := fx.entryPos
	fx.sc.body = append([]string(nil), saved[:cut]...)
	env2 := fx.specEnv(fx.entry, fx.entry, nil, false)
	env2.bindResults(fn.Signature, results)
	phi := env2.EvalBool(o.Expr)
	pre := TTrue
	if fx.contract != nil {
		var cs []Term
		for _, cl := range fx.contract.Requires {
			e3 := fx.specEnv(fx.entry, fx.entry, nil, false)
			cs = append(cs, e3.EvalBool(cl.Expr))
		}
		pre = And(cs...)
	}
	defined := fx.sc.body
	fx.sc.body = saved
	scriptBody := append([]string(nil), defined[:cut]...)
	for _, l := range saved[cut:] {
		if strings.HasPrefix(l, "(declare-fun ") || strings.HasPrefix(l, "(define-fun ") {
			scriptBody = append(scriptBody, l)
		}
	}
	scriptBody = append(scriptBody, decls...)
	scriptBody = append(scriptBody, defined[cut:]...)
	fx.sc.body = scriptBody
	text := fx.sc.Render(len(scriptBody), TTrue, nil)
	fx.sc.body = saved
	text = strings.Replace(text, "(assert true)\n(check-sat)\n", "", 1)
	var sb strings.Builder
	sb.WriteString(text)
	var order []int
	for i := range rows {
		out, ok := real[i]
		if !ok || len(out) != rs.Len() {
			continue
		}
		order = append(order, i)
		sb.WriteString("(push)\n")
		for j, p := range fn.Params {
			fmt.Fprintf(&sb, "(assert (= %s %s))\n", fx.vals[p].S, lit(rows[i][j]))
		}
		for k := range out {
			fmt.Fprintf(&sb, "(assert (= rr!%d %s))\n", k, lit(out[k]))
		}
		fmt.Fprintf(&sb, "(assert %s)\n(check-sat)\n(assert %s)\n(check-sat)\n(pop)\n", pre.S, phi.S)
	}
	qf := filepath.Join(work, "search.smt2")
	os.WriteFile(qf, []byte(sb.String()), 0o644)
	ctx2, cancel2 := context.WithTimeout(context.Background(), 120*time.Second)
	defer cancel2()
	zout, _ := exec.CommandContext(ctx2, "z3-new", "-T:100", qf).CombinedOutput()
	answers := strings.Fields(string(zout))
	fmt.Fprintf(&log, "no model from the solver; searched %d boundary-value rows on the real function (%d ran without panicking)\n", len(rows), len(order))
	for n, i := range order {
		if 2*n+1 >= len(answers) {
			break
		}
		if answers[2*n] == "sat" && answers[2*n+1] == "unsat" {
			var shown []string
			for j, p := range fn.Params {
				shown = append(shown, fmt.Sprintf("%s=%s", p.Name(), rows[i][j]))
			}
			for k, v := range real[i] {
				shown = append(shown, fmt.Sprintf("result%d=%s", k, v))
			}
			fmt.Fprintf(&log, "REPRODUCED: the real function run on %s falsifies the clause (preconditions hold)\n", strings.Join(shown, " "))
			rep.Reproduced = true
			rep.Log = log.String()
			return rep
		}
	}
	log.WriteString("no row falsified the clause; no failing input is claimed\n")
	rep.Log = log.String()
	return rep
}
