package main

import (
	"bufio"
	"encoding/json"
	"flag"
	"fmt"
	"os"
	"path/filepath"
	"sort"
	"strconv"
	"strings"
	"time"
)

// PropertySpec says which contracts and lemmas decide a property (spec/properties.json).
type PropertySpec struct {
	ID        string   `json:"id"`
	Level     string   `json:"level"` // proof | other | exploration
	Functions []string `json:"functions"`
	Lemmas    []string `json:"lemmas"`
	Bounded   []string `json:"bounded"` // names of bounded stand-in runners (labelled, never counted as proved)
	Claim     string   `json:"claim"`
	NotDecided []string `json:"not_decided"`
	// NoPropagate: functions whose preconditions are NOT propagated to every caller in the
	// repository (internal helpers whose precondition is a data-structure invariant the property
	// does not speak about); their call sites are checked only inside the listed functions.
	NoPropagate []string `json:"no_propagate"`
}

type KnownFinding struct {
	Property   string `json:"property"`
	Obligation string `json:"obligation"`
	Status     string `json:"status"` // known | fixed
	What       string `json:"what"`
	Commit     string `json:"commit,omitempty"`
}

func loadProperties(dir string) (map[string]*PropertySpec, error) {
	b, err := os.ReadFile(filepath.Join(dir, "spec", "properties.json"))
	if err != nil {
		return nil, err
	}
	var list []*PropertySpec
	if err := json.Unmarshal(b, &list); err != nil {
		return nil, fmt.Errorf("spec/properties.json: %v", err)
	}
	m := map[string]*PropertySpec{}
	for _, p := range list {
		m[p.ID] = p
	}
	return m, nil
}

func loadKnownFindings(dir string) ([]KnownFinding, error) {
	f, err := os.Open(filepath.Join(dir, "KNOWN_FINDINGS.jsonl"))
	if err != nil {
		if os.IsNotExist(err) {
			return nil, nil
		}
		return nil, err
	}
	defer f.Close()
	var out []KnownFinding
	sc := bufio.NewScanner(f)
	sc.Buffer(make([]byte, 1<<20), 1<<20)
	for sc.Scan() {
		line := strings.TrimSpace(sc.Text())
		if line == "" || strings.HasPrefix(line, "#") {
			continue
		}
		if strings.HasPrefix(line, "fixed:") {
			continue // fixed entries are documentation; they suppress nothing
		}
		var k KnownFinding
		if err := json.Unmarshal([]byte(line), &k); err != nil {
			return nil, fmt.Errorf("KNOWN_FINDINGS.jsonl: %v", err)
		}
		out = append(out, k)
	}
	return out, nil
}

type oblEvidence struct {
	Name   string  `json:"name"`
	Kind   string  `json:"kind"`
	Status string  `json:"status"`
	Answer string  `json:"answer"`
	Solver string  `json:"solver"`
	TimeS  float64 `json:"time_s"`
	Bytes  int     `json:"smt_bytes"`
	Clause string  `json:"clause,omitempty"`
}

func cmdCheck(args []string) int {
	fs := flag.NewFlagSet("check", flag.ExitOnError)
	tier := fs.String("tier", "", "quick | thorough")
	// accept flags after the property id as well (`check C02 --tier quick`)
	var flags, pos []string
	for i := 0; i < len(args); i++ {
		a := args[i]
		if strings.HasPrefix(a, "-") {
			flags = append(flags, a)
			if !strings.Contains(a, "=") && i+1 < len(args) {
				flags = append(flags, args[i+1])
				i++
			}
			continue
		}
		pos = append(pos, a)
	}
	fs.Parse(append(flags, pos...))
	if fs.NArg() != 1 {
		fmt.Fprintln(os.Stderr, "usage: govc check <property-id> [--tier quick|thorough]")
		return 2
	}
	pid := fs.Arg(0)
	if *tier == "" {
		*tier = os.Getenv("VERIF_TIER")
	}
	if *tier != "thorough" {
		*tier = "quick"
	}
	seed, _ := strconv.Atoi(os.Getenv("VERIF_SEED"))
	vdir := verifDir()
	t0 := time.Now()
	props, err := loadProperties(vdir)
	if err != nil {
		fmt.Fprintln(os.Stderr, err)
		return 2
	}
	ps := props[pid]
	if ps == nil {
		fmt.Fprintf(os.Stderr, "property %s is not claimed (see MANIFEST.json not_applicable)\n", pid)
		return 2
	}
	known, err := loadKnownFindings(vdir)
	if err != nil {
		fmt.Fprintln(os.Stderr, err)
		return 2
	}
	g, err := Load(repoDir(), vdir)
	if err != nil {
		// the tree does not load: nothing can be established
		return reportBroken(vdir, pid, *tier, seed, ps, "load", err.Error(), t0)
	}
	loadS := time.Since(t0).Seconds()
	var obls []*Obligation
	assumed := map[string]bool{}
	opaque := map[string]int{}
	var functions []string
	pathCuts := 0
	// Dependency closure: verification is modular, so a function listed for this property is checked
	// against the CONTRACTS of its callees. Every callee contract relied on that is not a trusted
	// (assumed) one is therefore verified here as well - otherwise a change inside such a callee
	// would go unnoticed by this property's check. The work list grows until nothing new is used.
	work := append([]string(nil), ps.Functions...)
	seen := map[string]bool{}
	var closure []string
	for len(work) > 0 {
		key := work[0]
		work = work[1:]
		if seen[key] {
			continue
		}
		seen[key] = true
		if g.contracts[key] == nil {
			obls = append(obls, &Obligation{Name: key + "#contract", Kind: "unsupported", Fn: key, Goal: TTrue,
				Err: "spec/properties.json names this function but no contract for it was found in the contract files"})
			continue
		}
		os, fx := g.VerifyFunction(key)
		obls = append(obls, os...)
		functions = append(functions, key)
		if fx != nil {
			for k := range fx.assumed {
				assumed[k] = true
			}
			for k, n := range fx.opaque {
				opaque[k] += n
			}
			pathCuts += fx.pathCuts
			var used []string
			for k := range fx.usedCtr {
				if !seen[k] && g.contracts[k] != nil && !g.contracts[k].Trusted {
					used = append(used, k)
				}
			}
			sort.Strings(used)
			for _, k := range used {
				work = append(work, k)
				closure = append(closure, k)
			}
		}
	}
	_ = closure
	// requires-propagation: every function in the loaded packages that calls a function whose
	// contract (in this property's list) has a precondition is verified too, so that a new,
	// unguarded path to it is an obligation even if that caller has no contract of its own.
	// Only the call-site obligations of those callers are kept.
	listed := map[string]bool{}
	for _, k := range ps.Functions {
		listed[k] = true
	}
	var propagated []string
	var propagating []string
	for _, k := range ps.Functions {
		skip := false
		for _, n := range ps.NoPropagate {
			if n == k {
				skip = true
			}
		}
		if !skip {
			propagating = append(propagating, k)
		}
	}
	for _, caller := range g.callersOfRequiring(propagating) {
		if listed[caller] {
			continue
		}
		os, fx := g.VerifyFunction(caller)
		kept := 0
		for _, o := range os {
			if o.Kind == "requires-callsite" || o.Kind == "unsupported" {
				keep := o.Kind == "unsupported"
				for _, k := range propagating {
					if strings.Contains(o.Name, "#call."+k+".") {
						keep = true
					}
				}
				if keep {
					obls = append(obls, o)
					kept++
				}
			}
		}
		if kept > 0 {
			propagated = append(propagated, caller)
			if fx != nil {
				for k := range fx.assumed {
					assumed[k] = true
				}
			}
		}
	}
	sort.Strings(propagated)
	for _, ln := range ps.Lemmas {
		obls = append(obls, g.LemmaObligation(ln))
	}
	quickS, slowS := 4, 25
	if *tier == "thorough" {
		quickS, slowS = 10, 180
	}
	// a scratch directory of this process alone: two checks of one property may run side by side (quick and thorough,
	// or against different trees) and must not see - or delete - each other's queries
	smtDir := filepath.Join(vdir, ".work", "smt", fmt.Sprintf("%s.%d", pid, os.Getpid()))
	os.RemoveAll(smtDir)
	defer os.RemoveAll(smtDir)
	for _, o := range obls {
		if matchKnown(known, pid, o.Name) != nil {
			o.QuickOnly = true
		}
	}
	results := DischargeAll(obls, smtDir, quickS, slowS, 8)

	// bounded stand-ins (labelled; never counted as discharged obligations)
	var bounded []BoundedResult
	for _, b := range ps.Bounded {
		bounded = append(bounded, RunBounded(g, vdir, b, *tier, seed))
	}

	// classify
	nObl, nDis := 0, 0
	var evid []oblEvidence
	var solverTime float64
	violations := 0
	var lines []string
	backends := map[string]int{}
	var knownHit []string
	for _, r := range results {
		o := r.Obl
		nObl++
		solverTime += r.TimeS
		evid = append(evid, oblEvidence{Name: o.Name, Kind: o.Kind, Status: r.Status, Answer: r.Answer, Solver: r.Solver, TimeS: round3(r.TimeS), Bytes: r.Bytes, Clause: o.Text})
		if r.Status == "discharged" {
			nDis++
			backends[r.Solver]++
			if r.SMTFile != "" {
				os.Remove(r.SMTFile)
			}
			continue
		}
		// a failure that is a recorded known finding
		if kf := matchKnown(known, pid, o.Name); kf != nil {
			lines = append(lines, fmt.Sprintf("KNOWN-FINDING: property=%s %s [%s]", pid, kf.What, o.Name))
			knownHit = append(knownHit, o.Name)
			continue
		}
		violations++
		rp := writeReplay(g, vdir, pid, r)
		suffix := ""
		if !rp.Reproduced {
			suffix = " obligation=" + o.Name + " no-failing-input-found"
		} else {
			suffix = " obligation=" + o.Name
		}
		lines = append(lines, fmt.Sprintf("VIOLATION property=%s replay=%s%s", pid, rp.Path, suffix))
	}
	for _, b := range bounded {
		for _, kf := range b.Known {
			lines = append(lines, fmt.Sprintf("KNOWN-FINDING: property=%s %s", pid, kf))
		}
		for _, v := range b.Violations {
			violations++
			lines = append(lines, fmt.Sprintf("VIOLATION property=%s replay=%s", pid, v))
		}
	}
	// known findings that no longer fail are reported (not an error): the entry is stale
	for _, kf := range known {
		if kf.Property != pid || kf.Status != "known" {
			continue
		}
		still := false
		for _, r := range results {
			if knownMatches(kf.Obligation, r.Obl.Name) && r.Status != "discharged" {
				still = true
			}
		}
		for _, b := range bounded {
			for _, k := range b.KnownIDs {
				if k == kf.Obligation {
					still = true
				}
			}
		}
		if !still {
			lines = append(lines, fmt.Sprintf("NOTE: known finding %q for %s no longer fails", kf.Obligation, pid))
		}
	}
	if nObl == 0 && len(bounded) == 0 {
		violations++
		lines = append(lines, fmt.Sprintf("VIOLATION property=%s replay=%s no obligations were generated (vacuous check) no-failing-input-found", pid, filepath.Join(vdir, "spec", "properties.json")))
	}

	// evidence
	wall := time.Since(t0).Seconds()
	var assumptions []string
	for k := range assumed {
		assumptions = append(assumptions, "assumed (trusted) contract: "+k)
	}
	for k := range g.eff.used {
		assumptions = append(assumptions, k)
	}
	var opq []string
	for k, n := range opaque {
		opq = append(opq, fmt.Sprintf("%s x%d", k, n))
	}
	sort.Strings(opq)
	assumptions = append(assumptions,
		"partial correctness: termination is proved only for loops with a decreases clause",
		"implicit run-time panics (nil dereference, index, division) are obligations only in functions marked nopanic; elsewhere postconditions speak about normal return",
		"calls to functions without a contract: results unconstrained (except mechanically derived never-nil results), frame = write set inferred from the callee's SSA",
		"goroutines, channels, select, unsafe, reflection are outside the verified subset",
		"go/ssa (x/tools v0.50.0) faithfully represents the Go source compiled with -tags verif; machine integers are modelled exactly (wrap-around), not as mathematical integers",
	)
	assumptions = append(assumptions, ps.NotDecided...)
	sort.Strings(assumptions)
	var samples []any
	for i, e := range evid {
		if i >= 6 {
			break
		}
		samples = append(samples, map[string]any{"obligation": e.Name, "kind": e.Kind, "clause": e.Clause, "solver": e.Solver, "time_s": e.TimeS, "smt_bytes": e.Bytes})
	}
	for _, b := range bounded {
		samples = append(samples, b.Samples...)
	}
	if len(samples) == 0 {
		samples = append(samples, "none")
	}
	cov := map[string]any{
		// obligations recorded as known findings (genuine defects, see KNOWN_FINDINGS.jsonl) are
		// listed apart: they are neither counted as obligations of the claim nor as discharged
		"obligations":              nObl - len(knownHit),
		"known_finding_obligations": knownHit,
		"discharged":               nDis,
		"checker_cmd":              fmt.Sprintf("bin/govc check %s --tier %s", pid, *tier),
		"trusted_base":             []string{"go/ssa + go/types (x/tools v0.50.0, go1.26.8)", "govc VC generator (/verif/govc)", "z3 5.1.0 / z3 4.8.12 / cvc5 1.0 (first to answer)", "assumed contracts listed under assumptions"},
		"functions_under_contract": functions,
		"callers_checked_by_requires_propagation": propagated,
		"per_obligation":           evid,
		"backends":                 backends,
		"solver_time_s":            round3(solverTime),
		"load_time_s":              round3(loadS),
		"opaque_calls":             opq,
		"samples":                  samples,
		"claim":                    ps.Claim,
	}
	level := ps.Level
	if level == "" {
		level = "proof"
	}
	if len(bounded) > 0 {
		evals, distinct := 0, 0
		var bl []any
		for _, b := range bounded {
			evals += b.Evaluations
			distinct += b.Distinct
			bl = append(bl, map[string]any{"name": b.Name, "bound": b.Bound, "evaluations": b.Evaluations, "distinct_nontrivial": b.Distinct, "label": "bounded stand-in, not a proof", "exhaustive": b.Exhaustive})
		}
		cov["bounded_standins"] = bl
		cov["evaluations"] = evals
		cov["distinct_nontrivial"] = distinct
		cov["rule"] = "bounded stand-ins enumerate the stated finite space exhaustively against the real functions; a case is non-trivial when the tree has at least two keys"
		cov["explanation"] = "contract obligations discharged by SMT for the functions listed, plus labelled bounded stand-ins (never counted as proved) for the parts no contract within reach can carry: " + ps.Claim
	}
	if level == "other" {
		if _, ok := cov["explanation"]; !ok {
			cov["explanation"] = ps.Claim
		}
	}
	ev := map[string]any{
		"property_id": pid, "tier": *tier, "seed": seed, "level": level, "coverage": cov,
		"assumptions": assumptions, "wall_s": round3(wall), "violations": violations,
	}
	os.MkdirAll(filepath.Join(outDir(vdir), "evidence"), 0o755)
	eb, _ := json.MarshalIndent(ev, "", " ")
	os.WriteFile(filepath.Join(outDir(vdir), "evidence", pid+".json"), eb, 0o644)

	for _, l := range lines {
		fmt.Println(l)
	}
	fmt.Printf("%s tier=%s: %d obligations, %d discharged, %d violations, %.1fs (load %.1fs, solvers %.1fs)\n", pid, *tier, nObl, nDis, violations, wall, loadS, solverTime)
	if violations > 0 {
		return 1
	}
	return 0
}

func round3(f float64) float64 { return float64(int(f*1000+0.5)) / 1000 }

func matchKnown(known []KnownFinding, pid, obl string) *KnownFinding {
	for i := range known {
		if known[i].Property == pid && known[i].Status == "known" && knownMatches(known[i].Obligation, obl) {
			return &known[i]
		}
	}
	return nil
}

// outDir is where evidence and replay files go: /verif, unless a self-test redirects them.
func outDir(vdir string) string {
	if d := os.Getenv("VERIF_EVIDENCE_DIR"); d != "" {
		return d
	}
	return vdir
}

func reportBroken(vdir, pid, tier string, seed int, ps *PropertySpec, stage, msg string, t0 time.Time) int {
	dir := filepath.Join(outDir(vdir), "replays", pid)
	os.MkdirAll(dir, 0o755)
	path := filepath.Join(dir, "load-failure.txt")
	os.WriteFile(path, []byte("stage: "+stage+"\n\n"+msg+"\n"), 0o644)
	ev := map[string]any{
		"property_id": pid, "tier": tier, "seed": seed, "level": "other",
		"coverage": map[string]any{"explanation": "the repository did not load/type-check with -tags verif; no obligation could be generated: " + firstLines(msg, 3)},
		"assumptions": []string{}, "wall_s": round3(time.Since(t0).Seconds()), "violations": 1,
	}
	os.MkdirAll(filepath.Join(outDir(vdir), "evidence"), 0o755)
	eb, _ := json.MarshalIndent(ev, "", " ")
	os.WriteFile(filepath.Join(outDir(vdir), "evidence", pid+".json"), eb, 0o644)
	fmt.Printf("VIOLATION property=%s replay=%s obligation=%s no-failing-input-found\n", pid, path, stage)
	return 1
}

// LemmaObligation builds the obligation for a stand-alone lemma (spec-level, proved by SMT).
func (g *Gen) LemmaObligation(name string) *Obligation {
	for _, l := range g.lemmas {
		if l.Name != name {
			continue
		}
		sc := NewScript()
		fx := &FnExec{g: g, sc: sc, tc: NewTypeCtx(sc), key: "lemma." + name, params: map[string]SpecVal{}, nonNil: map[string]bool{},
			vals: nil, counters: map[string]int{}}
		o := &Obligation{Name: "lemma." + name, Kind: "lemma", Fn: "lemma." + name, Script: sc, Text: l.Src}
		func() {
			defer func() {
				if r := recover(); r != nil {
					o.Err = fmt.Sprint(r)
				}
			}()
			st := &State{R: TTrue, heap: map[string]Term{}, nextRef: TZero}
			st.epoch = fx.newEpoch()
			env := &SpecEnv{fx: fx, st: st, old: st, vars: map[string]SpecVal{}, pkg: g.typesPkg(l.Pkg)}
			phi := env.EvalBool(l.Expr)
			o.Prefix = sc.Pos()
			o.Goal = Not(phi)
		}()
		return o
	}
	return &Obligation{Name: "lemma." + name, Kind: "lemma", Goal: TTrue, Err: "lemma not found in the contract files"}
}

// knownMatches: a known finding names one obligation, or - with a trailing '*' - all obligations of
// one call site / clause (its conjuncts and repeated call sites), never a whole function or property.
func knownMatches(pattern, name string) bool {
	if strings.HasSuffix(pattern, "*") {
		return strings.HasPrefix(name, strings.TrimSuffix(pattern, "*"))
	}
	return pattern == name
}
