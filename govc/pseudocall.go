package main

import (
	"fmt"
	"go/types"
	"strings"

	"golang.org/x/tools/go/ssa"
)

// Pseudo call sites. A value handed to a channel leaves the function without a call; `callsite chan.send
// requires[...]` clauses are evaluated at every channel send (plain send statements and the send cases of a
// select) with arg0 = the channel and arg1 = the value sent, in the sending function's scope. This is how a
// contract can speak about what is DELIVERED (e.g. a message put into an inbox must be a private copy).
func (fx *FnExec) pseudoCallsite(st *State, instr ssa.Instruction, key string, args []Term, argTypes []types.Type) {
	cfx := fx
	for cfx.contract == nil && cfx.inlineParent != nil {
		return // not applied inside helpers executed in place
	}
	if cfx.contract == nil {
		return
	}
	for _, cs := range cfx.contract.Callsites {
		if cs.Callee != key {
			continue
		}
		env := cfx.specEnv(st, cfx.entry, nil, true)
		env.pos = instr.Pos()
		for i := range args {
			env.vars[fmt.Sprintf("arg%d", i)] = SpecVal{T: args[i], Ty: argTypes[i]}
		}
		ord := cfx.ordinal("callsite." + cs.Callee + "." + cs.Clause.Label)
		suffix := ""
		if ord > 1 {
			suffix = fmt.Sprintf("@%d", ord)
		}
		cfx.AssertClause(st, env, fmt.Sprintf("callsite.%s.%s%s", strings.ReplaceAll(cs.Callee, ".", "_"), cs.Clause.Label, suffix), "callsite", cs.Clause)
	}
}
