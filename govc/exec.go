package main

import (
	"fmt"
	"go/constant"
	"go/token"
	"go/types"
	"math/big"
	"sort"
	"strings"

	"golang.org/x/tools/go/ssa"
)

// Obligation is one named proof goal: the script prefix up to Prefix plus Goal must be unsat.
type Obligation struct {
	Name    string
	Kind    string // ensures | requires-callsite | invariant-entry | invariant-preserved | nopanic | modifies | cover | lemma | unsupported
	Fn      string
	Prefix  int
	Goal    Term
	Script  *Script
	Pos     token.Position
	Text    string   // source text of the clause
	Values  []string // terms to get-value on sat
	ExpectSat bool   // cover queries: sat is the good answer
	PrePrefix int    // cover.call queries: script position and path condition BEFORE the callee's clauses were
	PreGoal   Term   // assumed; if that is already unreachable the cover is moot (dead path), not vacuous
	HasPre    bool
	QuickOnly bool   // recorded known finding: one short attempt is enough (it is expected not to discharge)
	Err     string   // generation failure (counts as undischarged)
	Fx      *FnExec  // the function execution this obligation belongs to (for replay)
	Expr    SpecExpr // the conjunct this obligation checks (for evaluating it on a concrete run)
}

type exitRec struct {
	cond    Term
	st      *State
	results []Term
}

type loopInfo struct {
	header   *ssa.BasicBlock
	blocks   map[*ssa.BasicBlock]bool
	ordinal  int
	minPos   token.Pos
	maxPos   token.Pos
	cells    []*ssa.Alloc
	mods     *ModSet
	iters    []ssa.Value
	entrySt  *State // state right after havoc+assume at the header
	preSt    *State // state at loop entry before havoc
	backIns   []edgeIn
	backSeen  int
	backTotal int
	flushed   bool
}

type FnExec struct {
	g        *Gen
	fn       *ssa.Function
	key      string
	sc       *Script
	tc       *TypeCtx
	vals     map[ssa.Value]Term
	tuples   map[ssa.Value][]Term
	ptrs     map[ssa.Value]*Ptr
	closures map[ssa.Value]*ssa.MakeClosure
	lastSelect *ssa.Select     // the select statement executed last (for the spec builtin received(x))
	extSeen  map[string]bool // pairs of byte strings for which the extensionality instance was stated
	qbind    []string // binders of the spec quantifiers being evaluated (innermost last) and their type guards
	qguard   []Term
	cellIDs  map[*ssa.Alloc]int
	nonNil   map[string]bool
	nepoch   int
	entry    *State
	params   map[string]SpecVal
	obls     []*Obligation
	contract *Contract
	nopanic  bool
	counters map[string]int
	exits    []exitRec
	loops    map[*ssa.BasicBlock]*loopInfo
	loopList []*loopInfo
	edges    map[[2]int][]edgeIn // (from,to) -> edges (an If with both arms equal gives two)
	phiConds map[*ssa.BasicBlock][]Term
	opaque   map[string]int
	assumed  map[string]bool // keys of trusted contracts used
	usedCtr  map[string]bool // keys of checked contracts used at call sites
	siteSeen map[ssa.Instruction]int // call-site ordinals for "callee@N" callsite clauses
	curInstr ssa.Instruction
	panicRs  []Term
	pathCuts int
	recDefs     map[string]*recDefInfo
	formalEpoch *Epoch
	formalKeys  []string
	freezeHV    bool
	resultTerms []Term
	entryPos    int // script position right after the parameters were declared
	objFrame    *objFrame
	inlineDepth  int            // nesting depth of in-place execution of contract-less helpers
	inlineParent *FnExec        // the execution this one is inlined into
	inlineAt     token.Pos      // position of the call that was inlined (in the parent)
	inlined      map[string]int // helpers executed in place (by key)
}

func (g *Gen) NewFnExec(fn *ssa.Function, c *Contract) *FnExec {
	sc := NewScript()
	fx := &FnExec{g: g, fn: fn, key: funcKey(fn), sc: sc, tc: NewTypeCtx(sc), contract: c,
		vals: map[ssa.Value]Term{}, tuples: map[ssa.Value][]Term{}, ptrs: map[ssa.Value]*Ptr{},
		closures: map[ssa.Value]*ssa.MakeClosure{}, cellIDs: map[*ssa.Alloc]int{}, nonNil: map[string]bool{},
		params: map[string]SpecVal{}, counters: map[string]int{}, loops: map[*ssa.BasicBlock]*loopInfo{},
		edges: map[[2]int][]edgeIn{}, phiConds: map[*ssa.BasicBlock][]Term{}, opaque: map[string]int{},
		assumed: map[string]bool{}, usedCtr: map[string]bool{}, inlined: map[string]int{}}
	if c != nil {
		fx.nopanic = c.NoPanic
	}
	return fx
}

func (fx *FnExec) ordinal(kind string) int {
	fx.counters[kind]++
	return fx.counters[kind]
}

func (fx *FnExec) position() token.Position {
	if fx.curInstr != nil && fx.curInstr.Pos().IsValid() {
		return fx.g.prog.Fset.Position(fx.curInstr.Pos())
	}
	return fx.g.prog.Fset.Position(fx.fn.Pos())
}

// Assert records an obligation "whenever st is reached, phi holds" and then assumes it.
func (fx *FnExec) Assert(st *State, name, kind, text string, phi Term) {
	if phi.S != "true" {
		o := &Obligation{Name: fx.key + "#" + name, Kind: kind, Fn: fx.key, Prefix: fx.sc.Pos(),
			Goal: And(st.R, Not(phi)), Script: fx.sc, Pos: fx.position(), Text: text, Fx: fx}
		o.Values = fx.paramValueNames()
		fx.obls = append(fx.obls, o)
	} else {
		// trivially true after simplification: still counted as an obligation
		o := &Obligation{Name: fx.key + "#" + name, Kind: kind, Fn: fx.key, Prefix: fx.sc.Pos(),
			Goal: TFalse, Script: fx.sc, Pos: fx.position(), Text: text}
		fx.obls = append(fx.obls, o)
	}
	fx.sc.Assume(Implies(st.R, phi))
}

// splitConj splits a clause into the conjuncts of its top-level conjunction, distributing a
// leading implication: P ==> (A && B) gives P ==> A and P ==> B. Each part becomes its own
// obligation, so a failure names the precise conjunct.
func splitConj(e SpecExpr) []SpecExpr {
	switch x := e.(type) {
	case SBinary:
		switch x.Op {
		case "&&":
			return append(splitConj(x.X), splitConj(x.Y)...)
		case "==>":
			var out []SpecExpr
			for _, p := range splitConj(x.Y) {
				out = append(out, SBinary{"==>", x.X, p})
			}
			return out
		}
	}
	return []SpecExpr{e}
}

// AssertClause evaluates a contract clause in env and records one obligation per conjunct.
func (fx *FnExec) AssertClause(st *State, env *SpecEnv, name, kind string, cl Clause) {
	parts := splitConj(cl.Expr)
	for i, p := range parts {
		n := name
		if len(parts) > 1 {
			n = fmt.Sprintf("%s/%d", name, i+1)
		}
		fx.Assert(st, n, kind, cl.Src, env.EvalBool(p))
		fx.obls[len(fx.obls)-1].Expr = p
	}
}

func (fx *FnExec) paramValueNames() []string {
	var out []string
	for _, p := range fx.fn.Params {
		if t, ok := fx.vals[p]; ok {
			out = append(out, t.S)
		}
	}
	return out
}

// implicit handles a run-time check Go performs (nil dereference, bounds, ...): an obligation
// in nopanic functions, otherwise an assumption that execution continued normally.
func (fx *FnExec) implicit(st *State, kind string, ok Term) {
	if ok.S == "true" {
		return
	}
	if fx.nopanic {
		fx.Assert(st, fmt.Sprintf("nopanic.%s.%d", kind, fx.ordinal("np."+kind)), "nopanic", kind, ok)
		return
	}
	fx.sc.Assume(Implies(st.R, ok))
}

func (fx *FnExec) needNonNil(st *State, ref Term, what string) {
	if fx.nonNil[ref.S] {
		return
	}
	fx.implicit(st, "nil", App("distinct", SBool, ref, TZero))
}

func (fx *FnExec) val(v ssa.Value) Term {
	if t, ok := fx.vals[v]; ok {
		return t
	}
	switch v := v.(type) {
	case *ssa.Const:
		return fx.constTerm(v)
	case *ssa.Function:
		name := "fn$" + sanitize(funcKey(v))
		fx.sc.Declare("uf:"+name, "(declare-fun "+name+" () Int)")
		fx.sc.Declare("uf+:"+name, "(assert (> "+name+" 0))")
		return Term{name, SInt}
	case *ssa.Global:
		p := fx.ptrOf(v)
		return fx.PtrTerm(p)
	case *ssa.Builtin:
		unsupported("builtin %s used as a value", v.Name())
	}
	if p, ok := fx.ptrs[v]; ok {
		t := fx.PtrTerm(p)
		fx.vals[v] = t
		return t
	}
	if _, ok := fx.tuples[v]; ok {
		unsupported("tuple value %s used as a scalar", v.Name())
	}
	panic(fmt.Sprintf("no term for SSA value %s = %s (%T) in %s", v.Name(), v, v, fx.key))
}

func (fx *FnExec) constTerm(c *ssa.Const) Term {
	t := c.Type()
	if c.Value == nil {
		return fx.tc.Zero(t)
	}
	switch c.Value.Kind() {
	case constant.Bool:
		return BoolLit(constant.BoolVal(c.Value))
	case constant.String:
		return fx.tc.StrConst(constant.StringVal(c.Value))
	case constant.Int:
		n, ok := new(big.Int).SetString(c.Value.ExactString(), 10)
		if !ok {
			unsupported("int constant %s", c.Value)
		}
		if b, isB := t.Underlying().(*types.Basic); isB && b.Info()&types.IsFloat != 0 {
			return Term{n.String() + ".0", SReal}
		}
		return BigLit(n)
	case constant.Float:
		f := fx.sc.Fresh("fconst", SReal)
		return f
	}
	unsupported("constant %s", c)
	return Term{}
}

func (fx *FnExec) ptrOf(v ssa.Value) *Ptr {
	if p, ok := fx.ptrs[v]; ok {
		return p
	}
	switch g := v.(type) {
	case *ssa.Global:
		et := g.Type().(*types.Pointer).Elem()
		p := &Ptr{Kind: PGlobal, Key: fx.tc.GlobalKey(g), ObjT: et, T: et}
		fx.ptrs[v] = p
		return p
	}
	pt, ok := v.Type().Underlying().(*types.Pointer)
	if !ok {
		unsupported("dereference of non-pointer %s", v.Type())
	}
	return &Ptr{Kind: PHeap, Ref: fx.val(v), ObjT: pt.Elem(), T: pt.Elem()}
}

// heapClosed returns the "no dangling reference" fact for a value read from the heap or
// produced by a callee: every reference in it is below the allocation frontier.
func (fx *FnExec) heapClosed(st *State, v Term, t types.Type, depth int) Term {
	switch u := t.Underlying().(type) {
	case *types.Pointer, *types.Map, *types.Chan:
		return App("<", SBool, v, st.nextRef)
	case *types.Slice:
		return App("<", SBool, App("sl.base", SInt, v), st.nextRef)
	case *types.Struct:
		if depth <= 0 {
			return TTrue
		}
		si := fx.tc.StructOf(t)
		var cs []Term
		for _, f := range si.Fields {
			cs = append(cs, fx.heapClosed(st, si.Get(v, f), f.Type, depth-1))
		}
		return And(cs...)
	default:
		_ = u
	}
	return TTrue
}

func (fx *FnExec) assumeValue(st *State, v Term, t types.Type) {
	fx.sc.Assume(fx.tc.WellTyped(v, t, 2))
	fx.sc.Assume(fx.heapClosed(st, v, t, 2))
}

// ---------------------------------------------------------------------------------------------

func (fx *FnExec) Run() (err error) {
	defer func() {
		if r := recover(); r != nil {
			if u, ok := r.(Unsupported); ok {
				err = u
				return
			}
			panic(r)
		}
	}()
	fn := fx.fn
	if len(fn.Blocks) == 0 {
		unsupported("function %s has no body", fx.key)
	}
	st := &State{R: TTrue, cells: map[*ssa.Alloc]Term{}, heap: map[string]Term{}, iters: map[ssa.Value]Term{}}
	st.epoch = fx.newEpoch()
	st.nextRef = fx.sc.Fresh("nextRef", SInt)
	st.hv = fx.sc.Fresh("hv", SInt)
	fx.sc.Assume(App(">", SBool, st.nextRef, TZero))
	for _, p := range fn.Params {
		t := fx.sc.Fresh("p$"+p.Name(), fx.tc.SortOf(p.Type()))
		fx.vals[p] = t
		fx.assumeValue(st, t, p.Type())
		fx.params[p.Name()] = SpecVal{T: t, Ty: p.Type()}
	}
	for _, fv := range fn.FreeVars {
		t := fx.sc.Fresh("fv$"+fv.Name(), fx.tc.SortOf(fv.Type()))
		fx.vals[fv] = t
		fx.assumeValue(st, t, fv.Type())
		fx.sc.Assume(App(">", SBool, t, TZero))
		fx.nonNil[t.S] = true
		// a captured variable x is addressable in contracts as x (the box content)
		if pt, ok := fv.Type().Underlying().(*types.Pointer); ok {
			fx.params["&"+fv.Name()] = SpecVal{T: t, Ty: fv.Type()}
			_ = pt
		}
	}
	fx.entry = st.Clone()
	fx.entry.frozen = true
	// axioms of the contract files: state-free facts about uninterpreted spec functions; assumed in every
	// script and listed as assumptions in the evidence
	for _, ax := range fx.g.axioms {
		env := &SpecEnv{fx: fx, st: st, old: fx.entry, vars: map[string]SpecVal{}}
		if p := fx.g.typesPkg(ax.Pkg); p != nil {
			env.pkg = p
		} else if fx.fn.Pkg != nil {
			env.pkg = fx.fn.Pkg.Pkg
		}
		fx.sc.Assume(env.EvalBool(ax.Expr))
		fx.assumed["axiom "+ax.Name+": "+ax.Src] = true
	}
	fx.entryPos = fx.sc.Pos()
	// preconditions
	if fx.contract != nil {
		for _, cl := range fx.contract.Requires {
			env := fx.specEnv(st, fx.entry, nil, false)
			phi := env.EvalBool(cl.Expr)
			fx.sc.Assume(phi)
		}
	}
	fx.setupObjFrame()
	fx.runBlocks(st)
	fx.finish()
	return nil
}

// runBlocks executes the body of fx.fn from state st (block 0), merging states at joins and cutting loops.
func (fx *FnExec) runBlocks(st *State) {
	fx.findLoops()
	order := fx.rpo()
	for _, b := range order {
		var cur *State
		if b.Index == 0 {
			cur = st
		} else {
			var ins []edgeIn
			var conds []Term
			for _, p := range b.Preds {
				if fx.isBackEdge(p, b) {
					conds = append(conds, TFalse)
					continue
				}
				es := fx.edges[[2]int{p.Index, b.Index}]
				if len(es) == 0 {
					conds = append(conds, TFalse)
					continue
				}
				// an If whose two arms reach the same block contributes twice; each Pred entry
				// consumes one
				e := es[0]
				if len(es) > 1 {
					fx.edges[[2]int{p.Index, b.Index}] = es[1:]
				}
				ins = append(ins, e)
				conds = append(conds, e.cond)
			}
			fx.phiConds[b] = conds
			cur = fx.Merge(fmt.Sprintf("b%d", b.Index), ins)
			if cur == nil {
				continue // unreachable
			}
		}
		if li, ok := fx.loops[b]; ok {
			fx.enterLoop(cur, li)
		}
		fx.execBlock(cur, b)
	}
	for _, li := range fx.loopList {
		if !li.flushed && len(li.backIns) > 0 {
			li.flushed = true
			m := fx.Merge(fmt.Sprintf("back%d", li.ordinal), li.backIns)
			fx.backEdge(m, m.R, li)
		}
	}
}

func (fx *FnExec) isBackEdge(from, to *ssa.BasicBlock) bool {
	return to.Dominates(from)
}

// rpo returns the blocks in reverse post-order over forward edges.
func (fx *FnExec) rpo() []*ssa.BasicBlock {
	seen := map[*ssa.BasicBlock]bool{}
	var post []*ssa.BasicBlock
	var dfs func(b *ssa.BasicBlock)
	dfs = func(b *ssa.BasicBlock) {
		seen[b] = true
		for _, s := range b.Succs {
			if !seen[s] && !fx.isBackEdge(b, s) {
				dfs(s)
			}
		}
		post = append(post, b)
	}
	dfs(fx.fn.Blocks[0])
	for i, j := 0, len(post)-1; i < j; i, j = i+1, j-1 {
		post[i], post[j] = post[j], post[i]
	}
	// a DFS post-order reversed is a topological order only for the edges it followed; check.
	idx := map[*ssa.BasicBlock]int{}
	for i, b := range post {
		idx[b] = i
	}
	for _, b := range post {
		for _, s := range b.Succs {
			if !fx.isBackEdge(b, s) && idx[s] <= idx[b] {
				unsupported("irreducible control flow in %s", fx.key)
			}
		}
	}
	return post
}

func (fx *FnExec) findLoops() {
	for _, b := range fx.fn.Blocks {
		for _, s := range b.Succs {
			if fx.isBackEdge(b, s) {
				li := fx.loops[s]
				if li == nil {
					li = &loopInfo{header: s, blocks: map[*ssa.BasicBlock]bool{s: true}}
					fx.loops[s] = li
					fx.loopList = append(fx.loopList, li)
				}
				li.backTotal++
				// natural loop: everything that reaches b without passing through s
				var stack []*ssa.BasicBlock
				if !li.blocks[b] {
					li.blocks[b] = true
					stack = append(stack, b)
				}
				for len(stack) > 0 {
					x := stack[len(stack)-1]
					stack = stack[:len(stack)-1]
					for _, p := range x.Preds {
						if !li.blocks[p] {
							li.blocks[p] = true
							stack = append(stack, p)
						}
					}
				}
			}
		}
	}
	for _, li := range fx.loopList {
		li.minPos = token.Pos(1 << 40)
		for b := range li.blocks {
			for _, in := range b.Instrs {
				if p := in.Pos(); p.IsValid() && p < li.minPos {
					li.minPos = p
				}
				if p := in.Pos(); p.IsValid() && p > li.maxPos {
					li.maxPos = p
				}
			}
		}
	}
	sort.Slice(fx.loopList, func(i, j int) bool {
		a, b := fx.loopList[i], fx.loopList[j]
		if a.minPos != b.minPos {
			return a.minPos < b.minPos
		}
		return len(a.blocks) > len(b.blocks)
	})
	for i, li := range fx.loopList {
		li.ordinal = i + 1
		fx.loopMods(li)
	}
}

// loopMods computes what a loop body may write: local cells, heap arrays and map iterators.
func (fx *FnExec) loopMods(li *loopInfo) {
	li.mods = NewModSet()
	cells := map[*ssa.Alloc]bool{}
	var blocks []*ssa.BasicBlock
	for b := range li.blocks {
		blocks = append(blocks, b)
	}
	sort.Slice(blocks, func(i, j int) bool { return blocks[i].Index < blocks[j].Index })
	for _, b := range blocks {
		for _, in := range b.Instrs {
			switch in := in.(type) {
			case *ssa.Store:
				if a := rootCell(in.Addr); a != nil {
					cells[a] = true
				}
			case *ssa.Alloc:
				if !in.Heap {
					cells[in] = true
				}
			case *ssa.Next:
				li.iters = append(li.iters, in.Iter)
			case ssa.CallInstruction:
				for _, a := range in.Common().Args {
					if c := rootCell(a); c != nil {
						cells[c] = true
					}
				}
			}
			fx.g.eff.inLoop = true
			fx.g.eff.instrWrites(fx.tc, fx.fn, in, li.mods)
			fx.g.eff.inLoop = false
		}
	}
	for a := range cells {
		li.cells = append(li.cells, a)
	}
	sort.Slice(li.cells, func(i, j int) bool { return li.cells[i].Name() < li.cells[j].Name() })
}

// rootCell returns the non-escaping local whose storage the address expression v points into.
func rootCell(v ssa.Value) *ssa.Alloc {
	for {
		switch x := v.(type) {
		case *ssa.Alloc:
			if x.Heap {
				return nil
			}
			return x
		case *ssa.FieldAddr:
			v = x.X
		case *ssa.IndexAddr:
			if _, ok := x.X.Type().Underlying().(*types.Pointer); ok {
				v = x.X // pointer to array
			} else {
				return nil
			}
		default:
			return nil
		}
	}
}

func (fx *FnExec) enterLoop(st *State, li *loopInfo) {
	li.preSt = st.Clone()
	var invs []Clause
	if fx.contract != nil {
		invs = fx.contract.Loops[li.ordinal]
	}
	// 1. invariants hold on entry
	for _, cl := range invs {
		env := fx.specEnv(st, fx.entry, li, true)
		phi := env.EvalBool(cl.Expr)
		fx.Assert(st, fmt.Sprintf("loop%d.invariant.%s.entry", li.ordinal, cl.Label), "invariant-entry", cl.Src, phi)
	}
	// 2. havoc everything the loop may write
	for _, a := range li.cells {
		if _, ok := st.cells[a]; !ok {
			continue // allocated inside the loop; (re)initialised there
		}
		et := a.Type().(*types.Pointer).Elem()
		v := fx.sc.Fresh("l$"+a.Comment, fx.tc.SortOf(et))
		st.cells[a] = v
	}
	fx.Havoc(st, li.mods)
	for _, a := range li.cells {
		if v, ok := st.cells[a]; ok {
			fx.assumeValue(st, v, a.Type().(*types.Pointer).Elem())
			if a.Comment == "rangeindex" {
				// the compiler's own index of a range-over-slice loop: starts at -1, is only ever incremented, and a
				// value other than -1 has passed the "index < len" test of an earlier iteration (len <= 2^48)
				fx.sc.Assume(And(App(">=", SBool, v, IntLit(-1)), App("<", SBool, v, Term{"281474976710656", SInt})))
				// ... more precisely it passed "index < n" with the loop's own bound n (computed before the loop)
				if n := rangeBound(li, a); n != nil {
					if nt, ok := fx.vals[n]; ok {
						fx.sc.Assume(Or(Eq(v, IntLit(-1)), App("<", SBool, v, nt)))
					}
				}
			}
		}
	}
	for _, it := range li.iters {
		if v, ok := st.iters[it]; ok {
			st.iters[it] = fx.sc.Fresh("it$"+it.Name(), v.Sort)
		}
	}
	// 3. assume the invariants for an arbitrary iteration
	for _, cl := range invs {
		env := fx.specEnv(st, fx.entry, li, true)
		fx.sc.Assume(Implies(st.R, env.EvalBool(cl.Expr)))
	}
	li.entrySt = st.Clone()
}

func (fx *FnExec) backEdge(st *State, cond Term, li *loopInfo) {
	var invs []Clause
	if fx.contract != nil {
		invs = fx.contract.Loops[li.ordinal]
		if its := fx.contract.IterEnsures[li.ordinal]; len(its) > 0 {
			s3 := st.Clone()
			s3.R = fx.sc.Define("R$iter", cond)
			for _, cl := range its {
				env := fx.specEnv(s3, fx.entry, nil, true)
				env.head = li.entrySt
				env.pos = li.maxPos
				fx.AssertClause(s3, env, fmt.Sprintf("loop%d.iter.%s", li.ordinal, cl.Label), "iteration-ensures", cl)
			}
		}
	}
	if len(invs) == 0 {
		return
	}
	s2 := st.Clone()
	s2.R = fx.sc.Define("R$back", cond)
	for _, cl := range invs {
		env := fx.specEnv(s2, fx.entry, li, true)
		phi := env.EvalBool(cl.Expr)
		fx.Assert(s2, fmt.Sprintf("loop%d.invariant.%s.preserved", li.ordinal, cl.Label), "invariant-preserved", cl.Src, phi)
	}
	if fx.contract != nil {
		if d, ok := fx.contract.Decreases[li.ordinal]; ok {
			// variant strictly decreases and is bounded below, compared with its value at the header
			envH := fx.specEnv(li.entrySt, fx.entry, li, true)
			envB := fx.specEnv(s2, fx.entry, li, true)
			vh := envH.Eval(d.Expr).T
			vb := envB.Eval(d.Expr).T
			fx.Assert(s2, fmt.Sprintf("loop%d.decreases", li.ordinal), "decreases", d.Src,
				And(App("<", SBool, vb, vh), App(">=", SBool, vh, TZero)))
		}
	}
}

func (fx *FnExec) addEdge(from, to *ssa.BasicBlock, cond Term, st *State) {
	if fx.isBackEdge(from, to) {
		if li := fx.loops[to]; li != nil {
			// all back edges of a loop are merged and the invariant is checked once
			li.backIns = append(li.backIns, edgeIn{cond: cond, st: st})
			li.backSeen++
			if li.backSeen == li.backTotal {
				li.flushed = true
				m := fx.Merge(fmt.Sprintf("back%d", li.ordinal), li.backIns)
				fx.backEdge(m, m.R, li)
			}
		}
		return
	}
	k := [2]int{from.Index, to.Index}
	fx.edges[k] = append(fx.edges[k], edgeIn{cond: cond, st: st})
}

func (fx *FnExec) execBlock(st *State, b *ssa.BasicBlock) {
	for _, in := range b.Instrs {
		fx.curInstr = in
		switch in := in.(type) {
		case *ssa.If:
			c := fx.val(in.Cond)
			st.frozen = true
			fx.addEdge(b, b.Succs[0], And(st.R, c), st)
			fx.addEdge(b, b.Succs[1], And(st.R, Not(c)), st)
			return
		case *ssa.Jump:
			st.frozen = true
			fx.addEdge(b, b.Succs[0], st.R, st)
			return
		case *ssa.Return:
			res := make([]Term, len(in.Results))
			for i, r := range in.Results {
				res[i] = fx.val(r)
			}
			fx.exits = append(fx.exits, exitRec{cond: st.R, st: st, results: res})
			return
		case *ssa.Panic:
			fx.panicRs = append(fx.panicRs, st.R)
			if fx.nopanic {
				fx.Assert(st, fmt.Sprintf("nopanic.panic.%d", fx.ordinal("np.panic")), "nopanic", "explicit panic", TFalse)
			}
			return
		default:
			fx.execInstr(st, in)
		}
	}
}

func (fx *FnExec) define(v ssa.Value, t Term) {
	name := v.Name()
	fx.vals[v] = fx.sc.Define(name, t)
}

func (fx *FnExec) execInstr(st *State, in ssa.Instruction) {
	switch in := in.(type) {
	case *ssa.DebugRef:
	case *ssa.Alloc:
		fx.execAlloc(st, in)
	case *ssa.Store:
		p := fx.ptrOf(in.Addr)
		fx.checkObjFrame(st, p)
		fx.StoreTo(st, p, fx.val(in.Val))
	case *ssa.UnOp:
		fx.execUnOp(st, in)
	case *ssa.BinOp:
		fx.define(in, fx.binop(st, in.Op, fx.val(in.X), fx.val(in.Y), in.X.Type(), in.Y.Type(), in.Type(), in.Y))
		// the test `i < n` of a counting loop `for i := 0; i < n; i++` whose bound cannot change inside the loop: at the
		// head the counter has not passed the bound (it is 0, or the previous iteration's test let it through and it
		// was incremented once)
		if li := fx.loops[in.Block()]; li != nil && in.Op == token.LSS && in.Block() == li.header {
			if a, from := countingLoopCellFrom(fx.fn, li); a != nil {
				if ld, ok := in.X.(*ssa.UnOp); ok && ld.X == ssa.Value(a) && fx.loopInvariantBound(li, in.Y) {
					x, y := fx.val(in.X), fx.val(in.Y)
					c := IntLit(from)
					fx.sc.Assume(Implies(st.R, And(App(">=", SBool, x, c), Or(App("<=", SBool, x, c), App("<=", SBool, x, y)))))
				}
			}
		}
	case *ssa.FieldAddr:
		base := fx.ptrOf(in.X)
		st0 := base.T
		si := fx.tc.StructOf(st0)
		f := si.byIdx[in.Field]
		if f == nil {
			// unmodelled field (protobuf bookkeeping, locks): opaque address
			t := fx.sc.Fresh("unmodelled$field", SInt)
			fx.sc.Assume(App(">", SBool, t, TZero))
			fx.vals[in] = t
			return
		}
		if base.Kind == PHeap && len(base.Path) == 0 {
			fx.needNonNil(st, base.Ref, "fieldaddr")
		}
		fx.ptrs[in] = base.extend(Sel{SI: si, Field: f}, f.Type)
	case *ssa.Field:
		si := fx.tc.StructOf(in.X.Type())
		f := si.byIdx[in.Field]
		if f == nil {
			fx.vals[in] = fx.sc.Fresh("unmodelled$field", fx.tc.SortOf(in.Type()))
			return
		}
		fx.define(in, si.Get(fx.val(in.X), f))
	case *ssa.IndexAddr:
		fx.execIndexAddr(st, in)
	case *ssa.Index:
		x := fx.val(in.X)
		i := fx.val(in.Index)
		switch u := in.X.Type().Underlying().(type) {
		case *types.Array:
			fx.implicit(st, "index", And(App("<=", SBool, TZero, i), App("<", SBool, i, IntLit(u.Len()))))
			fx.define(in, Select(x, i))
		default:
			// string index
			fx.sc.Declare("uf:strat", "(declare-fun strat (Int Int) Int)")
			fx.sc.Declare("strlen", "(declare-fun strlen (Int) Int)")
			fx.implicit(st, "index", And(App("<=", SBool, TZero, i), App("<", SBool, i, App("strlen", SInt, x))))
			v := fx.sc.Define(in.Name(), App("strat", SInt, x, i))
			fx.sc.Assume(And(App("<=", SBool, TZero, v), App("<=", SBool, v, IntLit(255))))
			fx.vals[in] = v
		}
	case *ssa.Slice:
		fx.execSlice(st, in)
	case *ssa.Phi:
		conds := fx.phiConds[in.Block()]
		if _, isLoop := fx.loops[in.Block()]; isLoop {
			unsupported("phi at a loop header (escaping loop variable) in %s", fx.key)
		}
		var acc *Term
		for i := len(in.Edges) - 1; i >= 0; i-- {
			if i >= len(conds) || conds[i].S == "false" {
				continue
			}
			var v Term
			if _, isPtr := fx.ptrs[in.Edges[i]]; isPtr && fx.vals[in.Edges[i]].S == "" {
				v = fx.PtrTerm(fx.ptrs[in.Edges[i]])
			} else {
				v = fx.val(in.Edges[i])
			}
			if acc == nil {
				acc = &v
			} else {
				x := Ite(conds[i], v, *acc)
				acc = &x
			}
		}
		if acc == nil {
			unsupported("phi without live edges")
		}
		fx.define(in, *acc)
	case *ssa.Extract:
		tup, ok := fx.tuples[in.Tuple]
		if !ok {
			unsupported("extract from unknown tuple")
		}
		fx.vals[in] = tup[in.Index]
	case *ssa.Call:
		res := fx.doCall(st, in, in.Common())
		sig := in.Common().Signature()
		switch sig.Results().Len() {
		case 0:
		case 1:
			fx.vals[in] = res[0]
		default:
			fx.tuples[in] = res
		}
	case *ssa.Defer:
		st.defers = append(st.defers, in)
	case *ssa.RunDefers:
		ds, guards := st.defers, st.dguard
		st.defers, st.dguard = nil, nil
		for i := len(ds) - 1; i >= 0; i-- {
			g, conditional := guards[ds[i]]
			if !conditional {
				fx.doCall(st, ds[i], ds[i].Common())
				continue
			}
			// registered on some paths only: the call runs under its guard, the rest of the state skips it
			run, skip := st.Clone(), st.Clone()
			run.R = fx.sc.Define("R$defer", And(st.R, g))
			skip.R = fx.sc.Define("R$nodefer", And(st.R, Not(g)))
			fx.doCall(run, ds[i], ds[i].Common())
			run.defers, run.dguard = nil, nil
			merged := fx.Merge("cdefer", []edgeIn{{cond: run.R, st: run}, {cond: skip.R, st: skip}})
			*st = *merged
		}
	case *ssa.MakeInterface:
		fx.define(in, fx.makeIface(fx.val(in.X), in.X.Type()))
	case *ssa.ChangeInterface:
		fx.vals[in] = fx.val(in.X)
	case *ssa.ChangeType:
		fx.execChangeType(in)
	case *ssa.Convert:
		fx.execConvert(st, in)
	case *ssa.TypeAssert:
		fx.execTypeAssert(st, in)
	case *ssa.MakeSlice:
		ln, cp := fx.val(in.Len), fx.val(in.Cap)
		// make panics for a negative length, len > cap, and a length beyond what can be allocated (the
		// generator's allocation bound 2^48 stands for the latter: lengths of any integer type reach here)
		fx.implicit(st, "makeslice", And(App("<=", SBool, TZero, ln), App("<=", SBool, ln, cp), App("<=", SBool, cp, Term{"281474976710656", SInt})))
		et := in.Type().Underlying().(*types.Slice).Elem()
		ref := fx.newRef(st, "mkslice")
		key := fx.tc.ElemKey(et)
		es := fx.tc.SortOf(et)
		zero := Term{fmt.Sprintf("((as const %s) %s)", ArraySort(SInt, es), fx.tc.Zero(et).S), ArraySort(SInt, es)}
		fx.SetHeap(st, key, Store(fx.Heap(st, key), ref, zero))
		fx.define(in, App("mk-slice", SSlice, ref, TZero, ln, cp))
	case *ssa.MakeMap:
		mt := in.Type().Underlying().(*types.Map)
		ref := fx.newRef(st, "mkmap")
		dk, vk := fx.tc.MapKeys(mt)
		ks, vs := fx.tc.SortOf(mt.Key()), fx.tc.SortOf(mt.Elem())
		fx.SetHeap(st, dk, Store(fx.Heap(st, dk), ref, Term{fmt.Sprintf("((as const %s) false)", ArraySort(ks, SBool)), ArraySort(ks, SBool)}))
		fx.SetHeap(st, vk, Store(fx.Heap(st, vk), ref, Term{fmt.Sprintf("((as const %s) %s)", ArraySort(ks, vs), fx.tc.Zero(mt.Elem()).S), ArraySort(ks, vs)}))
		fx.vals[in] = ref
	case *ssa.MakeChan:
		fx.vals[in] = fx.newRef(st, "mkchan")
	case *ssa.MakeClosure:
		fx.closures[in] = in
		t := fx.sc.Fresh("closure", SInt)
		fx.sc.Assume(App(">", SBool, t, TZero))
		fx.vals[in] = t
	case *ssa.Lookup:
		fx.execLookup(st, in)
	case *ssa.MapUpdate:
		mt := in.Map.Type().Underlying().(*types.Map)
		m := fx.val(in.Map)
		fx.implicit(st, "nilmap", App("distinct", SBool, m, TZero))
		dk, vk := fx.tc.MapKeys(mt)
		d, v := fx.Heap(st, dk), fx.Heap(st, vk)
		k := fx.val(in.Key)
		fx.SetHeap(st, dk, Store(d, m, Store(Select(d, m), k, TTrue)))
		fx.SetHeap(st, vk, Store(v, m, Store(Select(v, m), k, fx.val(in.Value))))
	case *ssa.Range:
		switch mt := in.X.Type().Underlying().(type) {
		case *types.Map:
			ks := fx.tc.SortOf(mt.Key())
			st.iters[in] = Term{fmt.Sprintf("((as const %s) false)", ArraySort(ks, SBool)), ArraySort(ks, SBool)}
			fx.vals[in] = fx.val(in.X)
		default:
			unsupported("range over %s", in.X.Type())
		}
	case *ssa.Next:
		fx.execNext(st, in)
	case *ssa.Send:
		// channel contents are not modelled: a send has no effect on tracked state; `callsite chan.send` clauses
		// see the channel and the value sent
		fx.pseudoCallsite(st, in, "chan.send", []Term{fx.val(in.Chan), fx.val(in.X)}, []types.Type{in.Chan.Type(), in.X.Type()})
	case *ssa.Select:
		// channels are not modelled: which case fires is arbitrary, received values are arbitrary
		n := len(in.States)
		idx := fx.sc.Fresh(in.Name()+"idx", SInt)
		lo := TZero
		if !in.Blocking {
			lo = IntLit(-1)
		}
		fx.sc.Assume(And(App("<=", SBool, lo, idx), App("<", SBool, idx, IntLit(int64(n)))))
		tup := []Term{idx, fx.sc.Fresh(in.Name()+"ok", SBool)}
		for _, s := range in.States {
			if s.Dir == types.SendOnly && s.Send != nil {
				fx.pseudoCallsite(st, in, "chan.send", []Term{fx.val(s.Chan), fx.val(s.Send)}, []types.Type{s.Chan.Type(), s.Send.Type()})
			}
			if s.Dir == types.RecvOnly {
				et := s.Chan.Type().Underlying().(*types.Chan).Elem()
				v := fx.sc.Fresh(in.Name()+"rv", fx.tc.SortOf(et))
				fx.assumeValue(st, v, et)
				tup = append(tup, v)
			}
		}
		fx.tuples[in] = tup
		fx.lastSelect = in
	case *ssa.Go:
		// `go f(x)`: interleavings are not modelled. A spawned call is accepted only when the callee can write nothing
		// the contracts speak about (a trusted `pure` contract, or an empty inferred write set): then when it runs is
		// unobservable here. Anything else stays outside the generator.
		if !fx.spawnIsEffectFree(in.Common()) {
			unsupported("concurrency instruction %T in %s", in, fx.key)
		}
		fx.assumed["go statement: the spawned call "+spawnKey(in.Common())+" writes nothing the contracts speak about (its timing is not modelled)"] = true
	default:
		unsupported("instruction %T (%s) in %s", in, in, fx.key)
	}
}

func (fx *FnExec) newRef(st *State, hint string) Term {
	r := fx.sc.Define("ref$"+hint, st.nextRef)
	if r.S == st.nextRef.S {
		// ensure a distinct name is not needed; nextRef is already a symbol
	}
	st.nextRef = fx.sc.Define("nextRef", App("+", SInt, r, IntLit(1)))
	fx.nonNil[r.S] = true
	return r
}

func (fx *FnExec) execAlloc(st *State, in *ssa.Alloc) {
	et := in.Type().(*types.Pointer).Elem()
	if !in.Heap {
		st.cells[in] = fx.tc.Zero(et)
		fx.ptrs[in] = &Ptr{Kind: PCell, Cell: in, ObjT: et, T: et}
		return
	}
	ref := fx.newRef(st, in.Comment)
	fx.vals[in] = ref
	p := &Ptr{Kind: PHeap, Ref: ref, ObjT: et, T: et}
	fx.ptrs[in] = p
	// zero-initialising a fresh object changes nothing an existing reader can observe
	fx.freezeHV = true
	fx.StoreTo(st, p, fx.tc.Zero(et))
	fx.freezeHV = false
}

func (fx *FnExec) execUnOp(st *State, in *ssa.UnOp) {
	switch in.Op {
	case token.MUL: // load
		p := fx.ptrOf(in.X)
		v := fx.Load(st, p)
		if p.Kind == PCell {
			fx.vals[in] = v
			return
		}
		v = fx.sc.Define(in.Name(), v)
		fx.vals[in] = v
		fx.assumeValue(st, v, in.Type())
	case token.NOT:
		fx.define(in, Not(fx.val(in.X)))
	case token.SUB:
		x := fx.val(in.X)
		if x.Sort == SReal {
			fx.define(in, App("-", SReal, x))
			return
		}
		fx.define(in, fx.wrap(App("-", SInt, x), in.Type()))
	case token.XOR:
		x := fx.val(in.X)
		b := in.Type().Underlying().(*types.Basic)
		if b.Info()&types.IsUnsigned != 0 {
			_, hi, _ := intRange(b)
			fx.define(in, App("-", SInt, Term{hi, SInt}, x))
		} else {
			fx.define(in, App("-", SInt, App("-", SInt, x), IntLit(1)))
		}
	case token.ARROW:
		// channel receive: contents are not modelled, the value is arbitrary
		et := in.X.Type().Underlying().(*types.Chan).Elem()
		v := fx.sc.Fresh(in.Name()+"recv", fx.tc.SortOf(et))
		fx.assumeValue(st, v, et)
		if in.CommaOk {
			fx.tuples[in] = []Term{v, fx.sc.Fresh(in.Name()+"ok", SBool)}
		} else {
			fx.vals[in] = v
		}
	default:
		unsupported("unary %s in %s", in.Op, fx.key)
	}
}

func bitSize(t types.Type) (bits uint, signed bool, ok bool) {
	b, isB := t.Underlying().(*types.Basic)
	if !isB || b.Info()&types.IsInteger == 0 {
		return 0, false, false
	}
	signed = b.Info()&types.IsUnsigned == 0
	switch b.Kind() {
	case types.Int8, types.Uint8:
		bits = 8
	case types.Int16, types.Uint16:
		bits = 16
	case types.Int32, types.Uint32:
		bits = 32
	default:
		bits = 64
	}
	return bits, signed, true
}

// wrap reduces a mathematical integer to the machine type t.
func (fx *FnExec) wrap(x Term, t types.Type) Term {
	bits, signed, ok := bitSize(t)
	if !ok {
		return x
	}
	if signed {
		return App("wrapS", SInt, x, BigLit(pow2(bits-1)))
	}
	return App("wrapU", SInt, x, BigLit(pow2(bits)))
}

func (fx *FnExec) binop(st *State, op token.Token, x, y Term, xt, yt, rt types.Type, yv ssa.Value) Term {
	if x.Sort == SReal || y.Sort == SReal {
		switch op {
		case token.ADD:
			return App("+", SReal, x, y)
		case token.SUB:
			return App("-", SReal, x, y)
		case token.MUL:
			return App("*", SReal, x, y)
		case token.QUO:
			return App("/", SReal, x, y)
		case token.LSS:
			return App("<", SBool, x, y)
		case token.LEQ:
			return App("<=", SBool, x, y)
		case token.GTR:
			return App(">", SBool, x, y)
		case token.GEQ:
			return App(">=", SBool, x, y)
		case token.EQL:
			return Eq(x, y)
		case token.NEQ:
			return Not(Eq(x, y))
		}
		unsupported("float op %s", op)
	}
	isStr := false
	if b, ok := xt.Underlying().(*types.Basic); ok && b.Info()&types.IsString != 0 {
		isStr = true
	}
	switch op {
	case token.EQL, token.NEQ:
		var e Term
		if _, isSl := xt.Underlying().(*types.Slice); isSl {
			// only comparison with nil is legal
			s := x
			if yc, ok := yv.(*ssa.Const); !ok || yc.Value != nil {
				s = y
			}
			e = Eq(App("sl.base", SInt, s), TZero)
			if s.S == y.S && x.S != y.S {
				e = Eq(App("sl.base", SInt, y), TZero)
			}
		} else if xi, yi := isIface(xt), isIface(yt); xi != yi {
			// mixed interface / concrete comparison
			if xi {
				e = Eq(x, fx.makeIface(y, yt))
			} else {
				e = Eq(fx.makeIface(x, xt), y)
			}
		} else {
			e = Eq(x, y)
		}
		if op == token.NEQ {
			return Not(e)
		}
		return e
	case token.LSS, token.LEQ, token.GTR, token.GEQ:
		if isStr {
			fx.sc.Declare("uf:strcmp", "(declare-fun strcmp (Int Int) Int)")
			c := App("strcmp", SInt, x, y)
			return App(map[token.Token]string{token.LSS: "<", token.LEQ: "<=", token.GTR: ">", token.GEQ: ">="}[op], SBool, c, TZero)
		}
		return App(map[token.Token]string{token.LSS: "<", token.LEQ: "<=", token.GTR: ">", token.GEQ: ">="}[op], SBool, x, y)
	case token.ADD:
		if isStr {
			fx.sc.Declare("uf:strcat", "(declare-fun strcat (Int Int) Int)")
			fx.sc.Declare("strlen", "(declare-fun strlen (Int) Int)")
			r := fx.sc.Define("cat", App("strcat", SInt, x, y))
			fx.sc.Assume(Eq(App("strlen", SInt, r), App("+", SInt, App("strlen", SInt, x), App("strlen", SInt, y))))
			fx.sc.Assume(fx.tc.WellTyped(r, xt, 0))
			return r
		}
		return fx.wrap(App("+", SInt, x, y), rt)
	case token.SUB:
		return fx.wrap(App("-", SInt, x, y), rt)
	case token.MUL:
		return fx.wrap(App("*", SInt, x, y), rt)
	case token.QUO:
		fx.implicit(st, "divzero", App("distinct", SBool, y, TZero))
		return fx.wrap(App("tdiv", SInt, x, y), rt)
	case token.REM:
		fx.implicit(st, "divzero", App("distinct", SBool, y, TZero))
		return App("tmod", SInt, x, y)
	case token.SHL, token.SHR:
		bits, signed, _ := bitSize(rt)
		if c, ok := yv.(*ssa.Const); ok && c.Value != nil {
			n, _ := constant.Uint64Val(constant.ToInt(c.Value))
			if n >= uint64(bits) {
				if op == token.SHL || !signed {
					return TZero
				}
				return Ite(App("<", SBool, x, TZero), IntLit(-1), TZero)
			}
			if op == token.SHL {
				return fx.wrap(App("*", SInt, x, BigLit(pow2(uint(n)))), rt)
			}
			return App("div", SInt, x, BigLit(pow2(uint(n))))
		}
		fx.declPow2()
		p := App("pow2", SInt, y)
		// a shift count of the operand width or more: Go yields 0 (or -1 for a negative signed operand
		// shifted right); the pow2 table only covers counts below 64
		big := App(">=", SBool, y, IntLit(int64(bits)))
		if op == token.SHL {
			return Ite(big, TZero, fx.wrap(App("*", SInt, x, p), rt))
		}
		over := TZero
		if signed {
			over = Ite(App("<", SBool, x, TZero), IntLit(-1), TZero)
		}
		return Ite(big, over, App("div", SInt, x, p))
	case token.AND, token.OR, token.XOR, token.AND_NOT:
		if x.Sort == SBool {
			switch op {
			case token.AND:
				return And(x, y)
			case token.OR:
				return Or(x, y)
			}
		}
		// masks of the form 2^k-1
		if op == token.AND {
			if c, ok := yv.(*ssa.Const); ok && c.Value != nil {
				if n, ok2 := new(big.Int).SetString(c.Value.ExactString(), 10); ok2 && n.Sign() >= 0 {
					n1 := new(big.Int).Add(n, big.NewInt(1))
					if n1.BitLen() > 0 && new(big.Int).And(n1, n).Sign() == 0 {
						_, signed, _ := bitSize(xt)
						if !signed {
							return App("mod", SInt, x, BigLit(n1))
						}
					}
				}
			}
		}
		name := map[token.Token]string{token.AND: "bitand", token.OR: "bitor", token.XOR: "bitxor", token.AND_NOT: "bitandnot"}[op]
		fx.sc.Declare("uf:"+name, "(declare-fun "+name+" (Int Int) Int)")
		r := fx.sc.Define(name, App(name, SInt, x, y))
		fx.sc.Assume(fx.tc.WellTyped(r, rt, 0))
		if op == token.AND {
			if _, signed, _ := bitSize(rt); !signed {
				fx.sc.Assume(And(App("<=", SBool, r, x), App("<=", SBool, r, y)))
			}
		}
		return r
	}
	unsupported("binary op %s in %s", op, fx.key)
	return Term{}
}

func (fx *FnExec) declPow2() {
	var sb strings.Builder
	sb.WriteString("(define-fun pow2 ((n Int)) Int ")
	for i := 0; i < 64; i++ {
		fmt.Fprintf(&sb, "(ite (= n %d) %s ", i, pow2(uint(i)).String())
	}
	sb.WriteString("0")
	sb.WriteString(strings.Repeat(")", 64))
	sb.WriteString(")")
	fx.sc.Declare("pow2", sb.String())
}

func isIface(t types.Type) bool {
	_, ok := t.Underlying().(*types.Interface)
	return ok
}

func (fx *FnExec) makeIface(v Term, t types.Type) Term {
	if isIface(t) {
		return v
	}
	tag := IntLit(int64(fx.tc.TypeTag(t)))
	if v.Sort == SInt {
		return App("mk-iface", SIface, tag, v)
	}
	// boxed payload: injective encoding into Int
	bn := "box$" + sanitize(v.Sort)
	un := "unbox$" + sanitize(v.Sort)
	fx.sc.Declare("uf:"+bn, fmt.Sprintf("(declare-fun %s (%s) Int)", bn, v.Sort))
	fx.sc.Declare("uf:"+un, fmt.Sprintf("(declare-fun %s (Int) %s)", un, v.Sort))
	b := App(bn, SInt, v)
	fx.sc.Assume(Eq(App(un, v.Sort, b), v))
	return App("mk-iface", SIface, tag, b)
}

func (fx *FnExec) unbox(val Term, t types.Type) Term {
	s := fx.tc.SortOf(t)
	if s == SInt {
		return val
	}
	bn := "box$" + sanitize(s)
	un := "unbox$" + sanitize(s)
	fx.sc.Declare("uf:"+bn, fmt.Sprintf("(declare-fun %s (%s) Int)", bn, s))
	fx.sc.Declare("uf:"+un, fmt.Sprintf("(declare-fun %s (Int) %s)", un, s))
	return App(un, s, val)
}

func (fx *FnExec) execTypeAssert(st *State, in *ssa.TypeAssert) {
	x := fx.val(in.X)
	tag := App("if.tag", SInt, x)
	var ok, v Term
	if isIface(in.AssertedType) {
		it := in.AssertedType.Underlying().(*types.Interface)
		if it.NumMethods() == 0 {
			ok = App("distinct", SBool, tag, TZero)
		} else {
			name := "impl$" + sanitize(shortTypeName(in.AssertedType))
			fx.sc.Declare("uf:"+name, "(declare-fun "+name+" (Int) Bool)")
			ok = And(App("distinct", SBool, tag, TZero), App(name, SBool, tag))
			// if the static type of X already implements the asserted interface, success = non-nil
			if types.Implements(in.X.Type(), it) {
				ok = App("distinct", SBool, tag, TZero)
			}
		}
		v = x
	} else {
		ok = Eq(tag, IntLit(int64(fx.tc.TypeTag(in.AssertedType))))
		v = fx.unbox(App("if.val", SInt, x), in.AssertedType)
	}
	okN := fx.sc.Define(in.Name()+"ok", ok)
	if in.CommaOk {
		val := fx.sc.Define(in.Name(), Ite(okN, v, fx.tc.Zero(in.AssertedType)))
		fx.assumeValue(st, val, in.AssertedType)
		fx.tuples[in] = []Term{val, okN}
		return
	}
	fx.implicit(st, "typeassert", okN)
	val := fx.sc.Define(in.Name(), v)
	fx.assumeValue(st, val, in.AssertedType)
	fx.vals[in] = val
}

func (fx *FnExec) execChangeType(in *ssa.ChangeType) {
	x := fx.val(in.X)
	from, to := fx.tc.SortOf(in.X.Type()), fx.tc.SortOf(in.Type())
	if from == to {
		fx.vals[in] = x
		return
	}
	if isStruct(in.X.Type()) && isStruct(in.Type()) {
		a, b := fx.tc.StructOf(in.X.Type()), fx.tc.StructOf(in.Type())
		if len(a.Fields) == len(b.Fields) {
			vals := make([]Term, len(a.Fields))
			for i, f := range a.Fields {
				vals[i] = a.Get(x, f)
			}
			fx.define(in, b.Mk(vals))
			return
		}
	}
	unsupported("changetype %s -> %s", in.X.Type(), in.Type())
}

func (fx *FnExec) declBytes() {
	fx.sc.Declare("sort:BSeq", bseqSortDecl)
	fx.sc.Declare("uf:bseq", "(declare-fun bseq ((Array Int Int) Int Int) BSeq)")
	fx.sc.Declare("uf:bseq.len", "(declare-fun bseq.len (BSeq) Int)")
	fx.sc.Declare("uf:bseq.at", "(declare-fun bseq.at (BSeq Int) Int)")
	fx.sc.Declare("uf:str2seq", "(declare-fun str2seq (Int) BSeq)")
	fx.sc.Declare("uf:seq2str", "(declare-fun seq2str (BSeq) Int)")
	fx.sc.Declare("strlen", "(declare-fun strlen (Int) Int)")
}

// bseqExtensional states, for one pair of byte strings compared in a specification, the instance of "byte strings of
// equal length that agree at every index are equal" (with a fresh witness index for the pair), and the axiom that ties
// the elements of bseq(arr, off, n) to the array. Both are valid in the intended model (BSeq = finite byte sequences).
func (fx *FnExec) bseqExtensional(a, b Term) {
	fx.declBytes()
	fx.sc.Declare("ax:bseq.at", "(assert (forall ((a!q (Array Int Int)) (o!q Int) (n!q Int) (i!q Int)) (! (=> (and (<= 0 i!q) (< i!q n!q)) (= (bseq.at (bseq a!q o!q n!q) i!q) (select a!q (+ o!q i!q)))) :pattern ((bseq.at (bseq a!q o!q n!q) i!q)))))")
	fx.sc.Declare("ax:bseq.len", "(assert (forall ((a!q (Array Int Int)) (o!q Int) (n!q Int)) (! (=> (<= 0 n!q) (= (bseq.len (bseq a!q o!q n!q)) n!q)) :pattern ((bseq a!q o!q n!q)))))")
	key := "bseqext:" + a.S + "|" + b.S
	if fx.extSeen == nil {
		fx.extSeen = map[string]bool{}
	}
	if fx.extSeen[key] {
		return
	}
	fx.extSeen[key] = true
	d := fx.sc.Fresh("bseqdiff", SInt)
	la, lb := App("bseq.len", SInt, a), App("bseq.len", SInt, b)
	fx.sc.Assume(Or(Eq(a, b), Not(Eq(la, lb)),
		And(App("<=", SBool, TZero, d), App("<", SBool, d, la), Not(Eq(App("bseq.at", SInt, a, d), App("bseq.at", SInt, b, d))))))
}

// BytesOf returns the abstract content (a BSeq) of a []byte value in state st, with the ground
// facts that tie it to its length.
func (fx *FnExec) BytesOf(st *State, s Term) Term {
	fx.declBytes()
	key := fx.tc.ElemKey(types.Typ[types.Uint8])
	arr := Select(fx.Heap(st, key), App("sl.base", SInt, s))
	if strings.Contains(s.S, "q$") {
		// mentions a bound variable: must stay inside its quantifier (no top-level definition)
		return App("bseq", "BSeq", arr, App("sl.off", SInt, s), App("sl.len", SInt, s))
	}
	b := fx.sc.Define("bseq", App("bseq", "BSeq", arr, App("sl.off", SInt, s), App("sl.len", SInt, s)))
	fx.sc.Assume(Eq(App("bseq.len", SInt, b), App("sl.len", SInt, s)))
	return b
}

func (fx *FnExec) execConvert(st *State, in *ssa.Convert) {
	x := fx.val(in.X)
	from, to := in.X.Type().Underlying(), in.Type().Underlying()
	fb, fIsB := from.(*types.Basic)
	tb, tIsB := to.(*types.Basic)
	switch {
	case fIsB && tIsB && fb.Info()&types.IsInteger != 0 && tb.Info()&types.IsInteger != 0:
		fx.define(in, fx.wrap(x, in.Type()))
	case fIsB && tIsB && fb.Info()&types.IsString != 0 && tb.Info()&types.IsString != 0:
		fx.vals[in] = x
	case fIsB && tIsB && fb.Info()&types.IsInteger != 0 && tb.Info()&types.IsFloat != 0:
		fx.define(in, App("to_real", SReal, x))
	case fIsB && tIsB && fb.Info()&types.IsFloat != 0 && tb.Info()&types.IsFloat != 0:
		fx.vals[in] = x
	case fIsB && tIsB && fb.Info()&types.IsFloat != 0 && tb.Info()&types.IsInteger != 0:
		v := fx.sc.Fresh("f2i", SInt)
		fx.sc.Assume(fx.tc.WellTyped(v, in.Type(), 0))
		fx.vals[in] = v
	case fIsB && tIsB && fb.Info()&types.IsInteger != 0 && tb.Info()&types.IsString != 0:
		fx.sc.Declare("uf:rune2str", "(declare-fun rune2str (Int) Int)")
		fx.define(in, App("rune2str", SInt, x))
	case tIsB && tb.Info()&types.IsString != 0:
		// []byte (or []rune) -> string
		if sl, ok := from.(*types.Slice); ok {
			if eb, ok := sl.Elem().Underlying().(*types.Basic); ok && eb.Kind() == types.Uint8 {
				b := fx.BytesOf(st, x)
				s := fx.sc.Define(in.Name(), App("seq2str", SInt, b))
				fx.sc.Assume(Eq(App("strlen", SInt, s), App("sl.len", SInt, x)))
				fx.sc.Assume(Eq(Eq(s, TZero), Eq(App("sl.len", SInt, x), TZero)))
				// the characters of the new string are the bytes of the slice at the time of the conversion
				fx.sc.Declare("uf:strat", "(declare-fun strat (Int Int) Int)")
				arr := Select(fx.Heap(st, fx.tc.ElemKey(types.Typ[types.Uint8])), App("sl.base", SInt, x))
				fx.sc.Assume(Term{fmt.Sprintf("(forall ((i!q Int)) (! (=> (and (<= 0 i!q) (< i!q (sl.len %s))) (= (strat %s i!q) (select %s (+ (sl.off %s) i!q)))) :pattern ((strat %s i!q))))",
					x.S, s.S, arr.S, x.S, s.S), SBool})
				fx.vals[in] = s
				return
			}
		}
		unsupported("conversion %s -> string", in.X.Type())
	case fIsB && fb.Info()&types.IsString != 0:
		// string -> []byte: a fresh backing array with the string's content
		if sl, ok := to.(*types.Slice); ok {
			if eb, ok := sl.Elem().Underlying().(*types.Basic); ok && eb.Kind() == types.Uint8 {
				fx.declBytes()
				ref := fx.newRef(st, "str2bytes")
				ln := App("strlen", SInt, x)
				s := fx.sc.Define(in.Name(), App("mk-slice", SSlice, ref, TZero, ln, ln))
				fx.vals[in] = s
				b := fx.BytesOf(st, s)
				fx.sc.Assume(Eq(b, App("str2seq", "BSeq", x)))
				fx.sc.Assume(Eq(App("seq2str", SInt, b), x))
				return
			}
		}
		unsupported("conversion string -> %s", in.Type())
	default:
		if fx.tc.SortOf(in.X.Type()) == fx.tc.SortOf(in.Type()) {
			fx.vals[in] = x
			return
		}
		unsupported("conversion %s -> %s", in.X.Type(), in.Type())
	}
}

func (fx *FnExec) execIndexAddr(st *State, in *ssa.IndexAddr) {
	i := fx.val(in.Index)
	switch u := in.X.Type().Underlying().(type) {
	case *types.Slice:
		s := fx.val(in.X)
		fx.implicit(st, "index", And(App("<=", SBool, TZero, i), App("<", SBool, i, App("sl.len", SInt, s))))
		idx := fx.sc.Define("idx", App("+", SInt, App("sl.off", SInt, s), i))
		fx.ptrs[in] = &Ptr{Kind: PElem, Ref: App("sl.base", SInt, s), Idx: idx, ObjT: u.Elem(), T: u.Elem()}
	case *types.Pointer:
		at := u.Elem().Underlying().(*types.Array)
		fx.implicit(st, "index", And(App("<=", SBool, TZero, i), App("<", SBool, i, IntLit(at.Len()))))
		base := fx.ptrOf(in.X)
		if base.Kind == PHeap && len(base.Path) == 0 {
			// element of a heap array object: same storage as a slice over it
			fx.ptrs[in] = &Ptr{Kind: PElem, Ref: base.Ref, Idx: i, ObjT: at.Elem(), T: at.Elem()}
			return
		}
		ii := i
		fx.ptrs[in] = base.extend(Sel{Index: &ii, ElemT: at.Elem()}, at.Elem())
	default:
		unsupported("indexaddr on %s", in.X.Type())
	}
}

func (fx *FnExec) execSlice(st *State, in *ssa.Slice) {
	var lo, hi, mx *Term
	if in.Low != nil {
		t := fx.val(in.Low)
		lo = &t
	}
	if in.High != nil {
		t := fx.val(in.High)
		hi = &t
	}
	if in.Max != nil {
		t := fx.val(in.Max)
		mx = &t
	}
	l := TZero
	if lo != nil {
		l = *lo
	}
	switch u := in.X.Type().Underlying().(type) {
	case *types.Slice:
		s := fx.val(in.X)
		h := App("sl.len", SInt, s)
		if hi != nil {
			h = *hi
		}
		c := App("sl.cap", SInt, s)
		m := c
		if mx != nil {
			m = *mx
		}
		fx.implicit(st, "slice", And(App("<=", SBool, TZero, l), App("<=", SBool, l, h), App("<=", SBool, h, m), App("<=", SBool, m, c)))
		fx.define(in, App("mk-slice", SSlice, App("sl.base", SInt, s), App("+", SInt, App("sl.off", SInt, s), l),
			App("-", SInt, h, l), App("-", SInt, m, l)))
	case *types.Pointer:
		at := u.Elem().Underlying().(*types.Array)
		n := IntLit(at.Len())
		h := n
		if hi != nil {
			h = *hi
		}
		m := n
		if mx != nil {
			m = *mx
		}
		fx.implicit(st, "slice", And(App("<=", SBool, TZero, l), App("<=", SBool, l, h), App("<=", SBool, h, m), App("<=", SBool, m, n)))
		base := fx.ptrOf(in.X)
		if base.Kind != PHeap || len(base.Path) != 0 {
			unsupported("slice of a non-heap array in %s", fx.key)
		}
		fx.needNonNil(st, base.Ref, "slice")
		fx.define(in, App("mk-slice", SSlice, base.Ref, l, App("-", SInt, h, l), App("-", SInt, m, l)))
	case *types.Basic: // string
		fx.sc.Declare("uf:substr", "(declare-fun substr (Int Int Int) Int)")
		fx.sc.Declare("strlen", "(declare-fun strlen (Int) Int)")
		s := fx.val(in.X)
		h := App("strlen", SInt, s)
		if hi != nil {
			h = *hi
		}
		fx.implicit(st, "slice", And(App("<=", SBool, TZero, l), App("<=", SBool, l, h), App("<=", SBool, h, App("strlen", SInt, s))))
		r := fx.sc.Define(in.Name(), App("substr", SInt, s, l, h))
		fx.sc.Assume(Eq(App("strlen", SInt, r), App("-", SInt, h, l)))
		fx.sc.Assume(fx.tc.WellTyped(r, in.Type(), 0))
		fx.vals[in] = r
	default:
		unsupported("slice of %s", in.X.Type())
	}
}

func (fx *FnExec) execLookup(st *State, in *ssa.Lookup) {
	switch mt := in.X.Type().Underlying().(type) {
	case *types.Map:
		m, k := fx.val(in.X), fx.val(in.Index)
		dk, vk := fx.tc.MapKeys(mt)
		ok := fx.sc.Define(in.Name()+"ok", And(App("distinct", SBool, m, TZero), Select(Select(fx.Heap(st, dk), m), k)))
		v := fx.sc.Define(in.Name(), Ite(ok, Select(Select(fx.Heap(st, vk), m), k), fx.tc.Zero(mt.Elem())))
		fx.assumeValue(st, v, mt.Elem())
		if in.CommaOk {
			fx.tuples[in] = []Term{v, ok}
		} else {
			fx.vals[in] = v
		}
	default:
		// string index
		fx.sc.Declare("uf:strat", "(declare-fun strat (Int Int) Int)")
		fx.sc.Declare("strlen", "(declare-fun strlen (Int) Int)")
		x, i := fx.val(in.X), fx.val(in.Index)
		fx.implicit(st, "index", And(App("<=", SBool, TZero, i), App("<", SBool, i, App("strlen", SInt, x))))
		v := fx.sc.Define(in.Name(), App("strat", SInt, x, i))
		fx.sc.Assume(And(App("<=", SBool, TZero, v), App("<=", SBool, v, IntLit(255))))
		fx.vals[in] = v
	}
}

func (fx *FnExec) execNext(st *State, in *ssa.Next) {
	if in.IsString {
		unsupported("range over string in %s", fx.key)
	}
	rng := in.Iter.(*ssa.Range)
	mt := rng.X.Type().Underlying().(*types.Map)
	m := fx.val(rng.X)
	dk, vk := fx.tc.MapKeys(mt)
	visited, ok := st.iters[in.Iter]
	if !ok {
		unsupported("map iterator state lost in %s", fx.key)
	}
	okT := fx.sc.Fresh(in.Name()+"ok", SBool)
	k := fx.sc.Fresh(in.Name()+"k", fx.tc.SortOf(mt.Key()))
	dom := Select(fx.Heap(st, dk), m)
	fx.sc.Assume(Implies(okT, And(App("distinct", SBool, m, TZero), Select(dom, k), Not(Select(visited, k)))))
	ks := fx.tc.SortOf(mt.Key())
	fx.sc.Assume(Implies(Not(okT), Term{fmt.Sprintf("(forall ((k!q %s)) (=> (and (distinct %s 0) (select %s k!q)) (select %s k!q)))", ks, m.S, dom.S, visited.S), SBool}))
	v := fx.sc.Define(in.Name()+"v", Select(Select(fx.Heap(st, vk), m), k))
	fx.assumeValue(st, k, mt.Key())
	fx.assumeValue(st, v, mt.Elem())
	st.iters[in.Iter] = fx.sc.Define("visited", Ite(okT, Store(visited, k, TTrue), visited))
	fx.tuples[in] = []Term{okT, k, v}
}

// finish merges the normal exits and emits the postcondition obligations.
func (fx *FnExec) finish() {
	fx.curInstr = nil
	if len(fx.exits) == 0 {
		// no normal return at all (e.g. always panics): postconditions hold vacuously, but flag it
		fx.obls = append(fx.obls, &Obligation{Name: fx.key + "#cover.exit", Kind: "cover", Fn: fx.key, Script: fx.sc,
			Prefix: fx.sc.Pos(), Goal: TFalse, ExpectSat: true, Err: "no normal return is reachable"})
		return
	}
	ins := make([]edgeIn, len(fx.exits))
	for i, e := range fx.exits {
		ins[i] = edgeIn{cond: e.cond, st: e.st}
	}
	var exit *State
	if len(ins) == 1 {
		exit = ins[0].st.Clone()
	} else {
		exit = fx.Merge("exit", ins)
	}
	nres := len(fx.exits[0].results)
	results := make([]Term, nres)
	for r := 0; r < nres; r++ {
		acc := fx.exits[len(fx.exits)-1].results[r]
		for i := len(fx.exits) - 2; i >= 0; i-- {
			acc = Ite(fx.exits[i].cond, fx.exits[i].results[r], acc)
		}
		results[r] = fx.sc.Define(fmt.Sprintf("result%d", r), acc)
		fx.resultTerms = append(fx.resultTerms, results[r])
	}
	// vacuity guard: some normal exit is reachable under all assumptions made
	fx.obls = append(fx.obls, &Obligation{Name: fx.key + "#cover.exit", Kind: "cover", Fn: fx.key, Script: fx.sc,
		Prefix: fx.sc.Pos(), Goal: exit.R, ExpectSat: true, Pos: fx.g.prog.Fset.Position(fx.fn.Pos())})
	if fx.contract == nil {
		return
	}
	for _, cl := range fx.contract.Ensures {
		env := fx.specEnv(exit, fx.entry, nil, false)
		env.bindResults(fx.fn.Signature, results)
		fx.AssertClause(exit, env, "ensures."+cl.Label, "ensures", cl)
	}
	// declared frame must cover the inferred write set
	if fx.contract.Modifies != nil {
		inferred := fx.g.eff.of(fx.fn)
		decl := fx.contract.Modifies.Resolve(fx)
		okm := true
		var missing []string
		if inferred.All && !decl.All {
			okm = false
			missing = append(missing, "*")
		}
		if !decl.All {
			for k := range inferred.Keys {
				if !decl.Keys[k] {
					okm = false
					missing = append(missing, k)
				}
			}
		}
		sort.Strings(missing)
		o := &Obligation{Name: fx.key + "#modifies", Kind: "modifies", Fn: fx.key, Script: fx.sc, Prefix: 0,
			Goal: BoolLit(!okm), Text: "modifies " + fx.contract.Modifies.Src}
		if !okm {
			o.Err = "inferred write set not covered by the declared frame: " + strings.Join(missing, ", ")
		}
		fx.obls = append(fx.obls, o)
	}
}

// rangeBound finds the bound n of the compiler-generated test "index+1 < n" of a range-over-slice loop whose index
// cell is a; nil when the loop does not have that shape or n is computed inside the loop.
func rangeBound(li *loopInfo, a *ssa.Alloc) ssa.Value {
	for b := range li.blocks {
		for _, in := range b.Instrs {
			cmp, ok := in.(*ssa.BinOp)
			if !ok || cmp.Op != token.LSS {
				continue
			}
			add, ok := cmp.X.(*ssa.BinOp)
			if !ok || add.Op != token.ADD {
				continue
			}
			ld, ok := add.X.(*ssa.UnOp)
			if !ok || ld.X != ssa.Value(a) {
				continue
			}
			if c, ok := add.Y.(*ssa.Const); !ok || c.Int64() != 1 {
				continue
			}
			if ni, ok := cmp.Y.(ssa.Instruction); ok && ni.Block() != nil && li.blocks[ni.Block()] {
				return nil
			}
			return cmp.Y
		}
	}
	return nil
}

// loopInvariantBound: v is computed outside the loop, is a constant, or is len(x) of a local x the loop never assigns.
func (fx *FnExec) loopInvariantBound(li *loopInfo, v ssa.Value) bool {
	if _, ok := v.(*ssa.Const); ok {
		return true
	}
	in, ok := v.(ssa.Instruction)
	if !ok {
		return true // parameter, free variable
	}
	if in.Block() == nil || !li.blocks[in.Block()] {
		return true
	}
	if call, ok := v.(*ssa.Call); ok {
		if b, ok := call.Call.Value.(*ssa.Builtin); ok && b.Name() == "len" && len(call.Call.Args) == 1 {
			if ld, ok := call.Call.Args[0].(*ssa.UnOp); ok && ld.Op == token.MUL {
				if a, ok := ld.X.(*ssa.Alloc); ok && !a.Heap {
					for _, c := range li.cells {
						if c == a {
							return false
						}
					}
					if _, isSlice := a.Type().(*types.Pointer).Elem().Underlying().(*types.Slice); isSlice {
						return true
					}
				}
			}
		}
	}
	return false
}

func spawnKey(c *ssa.CallCommon) string {
	if c.IsInvoke() {
		return ifaceMethodKey(c.Method)
	}
	if b, ok := c.Value.(*ssa.Builtin); ok {
		return "builtin." + b.Name()
	}
	if f := c.StaticCallee(); f != nil {
		return funcKey(f)
	}
	return "<dynamic>"
}

func (fx *FnExec) spawnIsEffectFree(c *ssa.CallCommon) bool {
	key := spawnKey(c)
	if ct := fx.g.contracts[key]; ct != nil {
		if ct.Modifies != nil {
			ms := ct.Modifies.ResolveIn(fx, nil)
			return !ms.All && len(ms.Keys) == 0 && len(ms.At) == 0
		}
	}
	if f := c.StaticCallee(); f != nil && len(f.Blocks) > 0 {
		ms := fx.g.eff.of(f)
		return !ms.All && len(ms.Keys) == 0
	}
	return false
}
