package main

import (
	"fmt"
	"go/types"
	"sort"
	"strings"

	"golang.org/x/tools/go/ssa"
)

// Epoch is a lazily populated generation of heap arrays. A root epoch (no parents) yields fresh
// unconstrained arrays on first access; a merge epoch yields the ite-merge of its parents.
type Epoch struct {
	id      int
	vals    map[string]Term
	parents []epochParent
}

type epochParent struct {
	cond Term
	st   *State
}

// State is the symbolic state at one program point.
type State struct {
	R       Term // reach condition (a named Bool)
	cells   map[*ssa.Alloc]Term
	heap    map[string]Term // overlay over epoch
	epoch   *Epoch
	nextRef Term
	hv      Term // heap version: a fresh token after every heap write (for `reads heap` spec functions)
	defers  []*ssa.Defer
	dguard  map[*ssa.Defer]Term // guard of a conditionally registered defer (absent = registered on every path here)
	iters   map[ssa.Value]Term  // visited sets of map iterators
	frozen  bool
}

func (st *State) Clone() *State {
	n := &State{R: st.R, epoch: st.epoch, nextRef: st.nextRef, hv: st.hv}
	n.cells = make(map[*ssa.Alloc]Term, len(st.cells))
	for k, v := range st.cells {
		n.cells[k] = v
	}
	n.heap = make(map[string]Term, len(st.heap))
	for k, v := range st.heap {
		n.heap[k] = v
	}
	n.iters = make(map[ssa.Value]Term, len(st.iters))
	for k, v := range st.iters {
		n.iters[k] = v
	}
	n.defers = append([]*ssa.Defer(nil), st.defers...)
	if len(st.dguard) > 0 {
		n.dguard = make(map[*ssa.Defer]Term, len(st.dguard))
		for k, v := range st.dguard {
			n.dguard[k] = v
		}
	}
	return n
}

// heapSorts records the sort of every heap key named so far (process-wide; keys are type-derived).
var heapSorts = map[string]string{}

func registerHeapKey(key, sort string) string {
	if old, ok := heapSorts[key]; ok && old != sort {
		panic(fmt.Sprintf("heap key %s registered with sorts %s and %s", key, old, sort))
	}
	heapSorts[key] = sort
	return key
}

func (fx *FnExec) newEpoch() *Epoch {
	fx.nepoch++
	return &Epoch{id: fx.nepoch, vals: map[string]Term{}}
}

// Heap returns the current value of heap array `key` in state st.
func (fx *FnExec) Heap(st *State, key string) Term {
	if v, ok := st.heap[key]; ok {
		return v
	}
	return fx.epochLookup(st.epoch, key)
}

func (fx *FnExec) epochLookup(e *Epoch, key string) Term {
	if v, ok := e.vals[key]; ok {
		return v
	}
	if e == fx.formalEpoch && e != nil {
		v := Term{formalHeapName(key), heapSorts[key]}
		e.vals[key] = v
		fx.formalKeys = append(fx.formalKeys, key)
		return v
	}
	srt, ok := heapSorts[key]
	if !ok {
		panic("unregistered heap key " + key)
	}
	var v Term
	if strings.HasPrefix(key, "GI$") {
		// an immutable package-level variable: the same constant in every epoch
		fx.sc.Declare("const:"+key, fmt.Sprintf("(declare-fun %s () %s)", key, srt))
		v = Term{key, srt}
		e.vals[key] = v
		return v
	}
	if len(e.parents) == 0 {
		v = fx.sc.Fresh(fmt.Sprintf("%s@%d", key, e.id), srt)
	} else {
		vals := make([]Term, len(e.parents))
		same := true
		for i, p := range e.parents {
			vals[i] = fx.Heap(p.st, key)
			if vals[i].S != vals[0].S {
				same = false
			}
		}
		if same {
			v = vals[0]
		} else {
			acc := vals[len(vals)-1]
			for i := len(vals) - 2; i >= 0; i-- {
				acc = Ite(e.parents[i].cond, vals[i], acc)
			}
			v = fx.sc.Define(fmt.Sprintf("%s@m%d", key, e.id), acc)
		}
	}
	e.vals[key] = v
	return v
}

func (fx *FnExec) SetHeap(st *State, key string, v Term) {
	if _, ok := heapSorts[key]; !ok {
		panic("unregistered heap key " + key)
	}
	st.heap[key] = fx.sc.Define(key, v)
	fx.bumpHV(st)
}

func (fx *FnExec) bumpHV(st *State) {
	if fx.freezeHV {
		return
	}
	st.hv = fx.sc.Fresh("hv", SInt)
}

// HavocAll forgets the whole heap (not the local cells).
func (fx *FnExec) HavocAll(st *State) {
	st.heap = map[string]Term{}
	st.epoch = fx.newEpoch()
	fx.bumpHV(st)
	old := st.nextRef
	st.nextRef = fx.sc.Fresh("nextRef", SInt)
	fx.sc.Assume(App(">=", SBool, st.nextRef, old))
}

func (fx *FnExec) HavocKeys(st *State, keys []string) {
	for _, k := range keys {
		st.heap[k] = fx.sc.Fresh(k+"@h", heapSorts[k])
	}
	if len(keys) > 0 {
		fx.bumpHV(st)
	}
	old := st.nextRef
	st.nextRef = fx.sc.Fresh("nextRef", SInt)
	fx.sc.Assume(App(">=", SBool, st.nextRef, old))
}

func (fx *FnExec) Havoc(st *State, ms *ModSet) {
	if ms == nil || ms.All {
		fx.HavocAll(st)
		return
	}
	if len(ms.Keys) == 0 {
		// allocation may still have happened
		old := st.nextRef
		st.nextRef = fx.sc.Fresh("nextRef", SInt)
		fx.sc.Assume(App(">=", SBool, st.nextRef, old))
	} else {
		fx.HavocKeys(st, ms.Sorted())
	}
	for _, am := range ms.At {
		if ms.Keys[am.Key] {
			continue
		}
		h := fx.Heap(st, am.Key)
		v := fx.sc.Fresh(am.Key+"@at", arrayElemSort(heapSorts[am.Key]))
		fx.SetHeap(st, am.Key, Store(h, am.Idx, v))
	}
}

type edgeIn struct {
	cond Term // full condition of taking this edge (includes the predecessor's reach condition)
	st   *State
}

// Merge builds the entry state of a join from its incoming edges.
func (fx *FnExec) Merge(hint string, ins []edgeIn) *State {
	if len(ins) == 0 {
		return nil
	}
	if len(ins) == 1 {
		n := ins[0].st.Clone()
		n.R = fx.sc.Define("R$"+hint, ins[0].cond)
		return n
	}
	conds := make([]Term, len(ins))
	for i, in := range ins {
		conds[i] = fx.sc.Define("e$"+hint, in.cond)
	}
	n := &State{heap: map[string]Term{}, cells: map[*ssa.Alloc]Term{}, iters: map[ssa.Value]Term{}}
	n.R = fx.sc.Define("R$"+hint, Or(conds...))
	mergeVals := func(h string, vals []Term) Term {
		same := true
		for _, v := range vals {
			if v.S != vals[0].S {
				same = false
			}
		}
		if same {
			return vals[0]
		}
		acc := vals[len(vals)-1]
		for i := len(vals) - 2; i >= 0; i-- {
			acc = Ite(conds[i], vals[i], acc)
		}
		return fx.sc.Define(h, acc)
	}
	// cells: only those defined in every predecessor survive
	// a variable that is out of scope on some incoming path keeps its zero value there (its
	// content is dead in the program; contracts may still name it under a guard)
	var allocs []*ssa.Alloc
	seenAlloc := map[*ssa.Alloc]bool{}
	for _, in := range ins {
		for a := range in.st.cells {
			if !seenAlloc[a] {
				seenAlloc[a] = true
				allocs = append(allocs, a)
			}
		}
	}
	sort.Slice(allocs, func(i, j int) bool { return allocs[i].Name() < allocs[j].Name() })
	for _, a := range allocs {
		vals := make([]Term, len(ins))
		for i, in := range ins {
			v, has := in.st.cells[a]
			if !has {
				v = fx.tc.Zero(a.Type().(*types.Pointer).Elem())
			}
			vals[i] = v
		}
		n.cells[a] = mergeVals("c$"+a.Comment+"$"+a.Name(), vals)
	}
	for it := range ins[0].st.iters {
		vals := make([]Term, 0, len(ins))
		ok := true
		for _, in := range ins {
			v, has := in.st.iters[it]
			if !has {
				ok = false
				break
			}
			vals = append(vals, v)
		}
		if ok {
			n.iters[it] = mergeVals("it$"+it.Name(), vals)
		}
	}
	// heap: same epoch and overlays merged eagerly, else lazy merge epoch
	sameEpoch := true
	for _, in := range ins[1:] {
		if in.st.epoch != ins[0].st.epoch {
			sameEpoch = false
		}
	}
	if sameEpoch {
		n.epoch = ins[0].st.epoch
		keys := map[string]bool{}
		for _, in := range ins {
			for k := range in.st.heap {
				keys[k] = true
			}
		}
		ks := make([]string, 0, len(keys))
		for k := range keys {
			ks = append(ks, k)
		}
		sort.Strings(ks)
		for _, k := range ks {
			vals := make([]Term, len(ins))
			for i, in := range ins {
				vals[i] = fx.Heap(in.st, k)
			}
			n.heap[k] = mergeVals(k+"@m", vals)
		}
	} else {
		e := fx.newEpoch()
		for i, in := range ins {
			e.parents = append(e.parents, epochParent{conds[i], in.st})
		}
		n.epoch = e
	}
	refs := make([]Term, len(ins))
	for i, in := range ins {
		refs[i] = in.st.nextRef
	}
	n.nextRef = mergeVals("nextRef", refs)
	hvs := make([]Term, len(ins))
	for i, in := range ins {
		hvs[i] = in.st.hv
	}
	n.hv = mergeVals("hv", hvs)
	// defers: the union of the incoming stacks, in source order (registration order along every path of structured
	// code). A deferred call that is not registered on every incoming path becomes CONDITIONAL: its guard is the
	// disjunction of the conditions of the edges that bring it (each conjoined with the guard it already had there).
	// Deferred calls that cannot write tracked state (metrics, timers) are kept unconditionally: whether they run is
	// unobservable.
	var union []*ssa.Defer
	seen := map[*ssa.Defer]bool{}
	for _, in := range ins {
		for _, d := range in.st.defers {
			if !seen[d] {
				seen[d] = true
				union = append(union, d)
			}
		}
	}
	sort.SliceStable(union, func(a, b int) bool { return union[a].Pos() < union[b].Pos() })
	n.defers = union
	n.dguard = nil
	for _, d := range union {
		everywhere := true
		var parts []Term
		for _, in := range ins {
			has := false
			for _, x := range in.st.defers {
				if x == d {
					has = true
				}
			}
			if !has {
				everywhere = false
				continue
			}
			if g, ok := in.st.dguard[d]; ok {
				everywhere = false
				parts = append(parts, And(in.cond, g))
			} else {
				parts = append(parts, in.cond)
			}
		}
		if everywhere || fx.deferIsEffectFree(d) {
			continue
		}
		if n.dguard == nil {
			n.dguard = map[*ssa.Defer]Term{}
		}
		n.dguard[d] = fx.sc.Define("dguard", Or(parts...))
	}
	return n
}

// ModSet is a set of heap arrays a piece of code may write.
type ModSet struct {
	All  bool
	Keys map[string]bool
	At   []AtMod // writes confined to one index of an array (fields of one object), call-site specific
}

// AtMod says: array Key may change at index Idx only.
type AtMod struct {
	Key string
	Idx Term
}

func NewModSet() *ModSet { return &ModSet{Keys: map[string]bool{}} }

func (m *ModSet) Add(k string) { m.Keys[k] = true }

func (m *ModSet) Union(o *ModSet) bool {
	if o == nil {
		if !m.All {
			m.All = true
			return true
		}
		return false
	}
	ch := false
	if o.All && !m.All {
		m.All = true
		ch = true
	}
	for k := range o.Keys {
		if !m.Keys[k] {
			m.Keys[k] = true
			ch = true
		}
	}
	return ch
}

func (m *ModSet) Sorted() []string {
	ks := make([]string, 0, len(m.Keys))
	for k := range m.Keys {
		ks = append(ks, k)
	}
	sort.Strings(ks)
	return ks
}

func (m *ModSet) String() string {
	if m == nil || m.All {
		return "*"
	}
	return fmt.Sprint(m.Sorted())
}
