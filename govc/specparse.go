package main

import (
	"fmt"
	"math/big"
	"strings"
	"unicode"
)

// ---- spec expression AST ---------------------------------------------------------------------

type SpecExpr interface{}

type (
	SIdent  struct{ Name string }
	SIntLit  struct{ V *big.Int }
	SBoolLit struct{ V bool }
	SStr    struct{ V string }
	SNil    struct{}
	SUnary  struct {
		Op string
		X  SpecExpr
	}
	SBinary struct {
		Op   string
		X, Y SpecExpr
	}
	SCond struct{ C, A, B SpecExpr }
	SSel  struct {
		X    SpecExpr
		Name string
	}
	SIndex  struct{ X, I SpecExpr }
	SSliceE struct{ X, Lo, Hi SpecExpr }
	SCall   struct {
		Fun  string
		Args []SpecExpr
	}
	SOld   struct{ X SpecExpr }
	SQuant struct {
		Forall bool
		Vars   []SVar
		Body   SpecExpr
	}
	SLet struct {
		Name string
		Val  SpecExpr
		Body SpecExpr
	}
)

type SVar struct {
	Name string
	Type string // textual type expression
}

// ---- lexer -----------------------------------------------------------------------------------

type tok struct {
	kind string // ident int str op eof
	text string
}

type lexer struct {
	src  string
	pos  int
	toks []tok
}

var ops = []string{"<==>", "==>", "::", "==", "!=", "<=", ">=", "&&", "||", "<<", ">>", "&^",
	"+", "-", "*", "/", "%", "<", ">", "!", "(", ")", "[", "]", ",", ".", ":", "?", "&", "|", "^", "{", "}", "="}

func lex(src string) ([]tok, error) {
	var out []tok
	i := 0
	for i < len(src) {
		c := src[i]
		switch {
		case c == ' ' || c == '\t' || c == '\n' || c == '\r':
			i++
		case unicode.IsLetter(rune(c)) || c == '_' || c == '$':
			j := i
			for j < len(src) && (unicode.IsLetter(rune(src[j])) || unicode.IsDigit(rune(src[j])) || src[j] == '_' || src[j] == '$') {
				j++
			}
			out = append(out, tok{"ident", src[i:j]})
			i = j
		case c >= '0' && c <= '9':
			j := i
			for j < len(src) && (src[j] >= '0' && src[j] <= '9' || src[j] == '_' || src[j] == 'x' || (src[j] >= 'a' && src[j] <= 'f') || (src[j] >= 'A' && src[j] <= 'F')) {
				j++
			}
			out = append(out, tok{"int", strings.ReplaceAll(src[i:j], "_", "")})
			i = j
		case c == '"':
			j := i + 1
			for j < len(src) && src[j] != '"' {
				if src[j] == '\\' {
					j++
				}
				j++
			}
			if j >= len(src) {
				return nil, fmt.Errorf("unterminated string")
			}
			out = append(out, tok{"str", src[i+1 : j]})
			i = j + 1
		default:
			matched := false
			for _, op := range ops {
				if strings.HasPrefix(src[i:], op) {
					out = append(out, tok{"op", op})
					i += len(op)
					matched = true
					break
				}
			}
			if !matched {
				return nil, fmt.Errorf("unexpected character %q at %d in %q", c, i, src)
			}
		}
	}
	out = append(out, tok{"eof", ""})
	return out, nil
}

// ---- parser ----------------------------------------------------------------------------------

type parser struct {
	toks []tok
	p    int
	src  string
}

func ParseSpecExpr(src string) (e SpecExpr, err error) {
	toks, err := lex(src)
	if err != nil {
		return nil, err
	}
	ps := &parser{toks: toks, src: src}
	defer func() {
		if r := recover(); r != nil {
			if s, ok := r.(parseErr); ok {
				err = fmt.Errorf("%s (in %q)", string(s), src)
				return
			}
			panic(r)
		}
	}()
	e = ps.expr()
	if ps.peek().kind != "eof" {
		ps.fail("trailing input at %q", ps.peek().text)
	}
	return e, nil
}

type parseErr string

func (ps *parser) fail(f string, a ...any) { panic(parseErr(fmt.Sprintf(f, a...))) }
func (ps *parser) peek() tok                { return ps.toks[ps.p] }
func (ps *parser) next() tok                { t := ps.toks[ps.p]; ps.p++; return t }
func (ps *parser) isOp(s string) bool       { t := ps.peek(); return t.kind == "op" && t.text == s }
func (ps *parser) accept(s string) bool {
	if ps.isOp(s) {
		ps.p++
		return true
	}
	return false
}
func (ps *parser) expect(s string) {
	if !ps.accept(s) {
		ps.fail("expected %q, found %q", s, ps.peek().text)
	}
}

func (ps *parser) expr() SpecExpr { return ps.iff() }

func (ps *parser) iff() SpecExpr {
	x := ps.implies()
	for ps.accept("<==>") {
		y := ps.implies()
		x = SBinary{"<==>", x, y}
	}
	return x
}

func (ps *parser) implies() SpecExpr {
	x := ps.cond()
	if ps.accept("==>") {
		y := ps.implies()
		return SBinary{"==>", x, y}
	}
	return x
}

func (ps *parser) cond() SpecExpr {
	c := ps.or()
	if ps.accept("?") {
		a := ps.cond()
		ps.expect(":")
		b := ps.cond()
		return SCond{c, a, b}
	}
	return c
}

func (ps *parser) or() SpecExpr {
	x := ps.and()
	for ps.accept("||") {
		x = SBinary{"||", x, ps.and()}
	}
	return x
}

func (ps *parser) and() SpecExpr {
	x := ps.cmp()
	for ps.accept("&&") {
		x = SBinary{"&&", x, ps.cmp()}
	}
	return x
}

func (ps *parser) cmp() SpecExpr {
	x := ps.add()
	for {
		t := ps.peek()
		if t.kind == "op" && (t.text == "==" || t.text == "!=" || t.text == "<" || t.text == "<=" || t.text == ">" || t.text == ">=") {
			ps.p++
			y := ps.add()
			// chained comparisons a <= b < c mean (a <= b) && (b < c)
			nx := SpecExpr(SBinary{t.text, x, y})
			t2 := ps.peek()
			if t2.kind == "op" && (t2.text == "<" || t2.text == "<=" || t2.text == ">" || t2.text == ">=") && (t.text != "==" && t.text != "!=") {
				ps.p++
				z := ps.add()
				return SBinary{"&&", nx, SBinary{t2.text, y, z}}
			}
			x = nx
			continue
		}
		return x
	}
}

func (ps *parser) add() SpecExpr {
	x := ps.mul()
	for {
		t := ps.peek()
		if t.kind == "op" && (t.text == "+" || t.text == "-") {
			ps.p++
			x = SBinary{t.text, x, ps.mul()}
			continue
		}
		return x
	}
}

func (ps *parser) mul() SpecExpr {
	x := ps.unary()
	for {
		t := ps.peek()
		if t.kind == "op" && (t.text == "*" || t.text == "/" || t.text == "%") {
			ps.p++
			x = SBinary{t.text, x, ps.unary()}
			continue
		}
		return x
	}
}

func (ps *parser) unary() SpecExpr {
	if ps.accept("!") {
		return SUnary{"!", ps.unary()}
	}
	if ps.accept("-") {
		return SUnary{"-", ps.unary()}
	}
	if ps.accept("*") {
		return SUnary{"*", ps.unary()}
	}
	if ps.accept("&") {
		return SUnary{"&", ps.unary()}
	}
	return ps.postfix()
}

func (ps *parser) postfix() SpecExpr {
	x := ps.primary()
	for {
		switch {
		case ps.accept("."):
			t := ps.next()
			if t.kind != "ident" {
				ps.fail("expected field name after '.'")
			}
			// qualified call pkg.F(args)
			if id, ok := x.(SIdent); ok && ps.isOp("(") {
				ps.p++
				args := ps.args()
				x = SCall{id.Name + "." + t.text, args}
				continue
			}
			x = SSel{x, t.text}
		case ps.accept("["):
			if ps.accept(":") {
				hi := ps.expr()
				ps.expect("]")
				x = SSliceE{x, nil, hi}
				continue
			}
			i := ps.expr()
			if ps.accept(":") {
				var hi SpecExpr
				if !ps.isOp("]") {
					hi = ps.expr()
				}
				ps.expect("]")
				x = SSliceE{x, i, hi}
				continue
			}
			ps.expect("]")
			x = SIndex{x, i}
		default:
			return x
		}
	}
}

func (ps *parser) args() []SpecExpr {
	var args []SpecExpr
	if ps.accept(")") {
		return args
	}
	for {
		args = append(args, ps.expr())
		if ps.accept(")") {
			return args
		}
		ps.expect(",")
	}
}

// typeText consumes a textual Go-like type up to (not including) a delimiter at depth 0.
func (ps *parser) typeText() string {
	var sb strings.Builder
	depth := 0
	for {
		t := ps.peek()
		if t.kind == "eof" {
			break
		}
		if t.kind == "op" {
			if depth == 0 && (t.text == "," || t.text == "::" || t.text == ")" || t.text == "=") {
				break
			}
			if t.text == "[" || t.text == "(" {
				depth++
			}
			if t.text == "]" {
				depth--
			}
		}
		sb.WriteString(t.text)
		ps.p++
	}
	return sb.String()
}

func (ps *parser) primary() SpecExpr {
	t := ps.next()
	switch t.kind {
	case "int":
		n, ok := new(big.Int).SetString(t.text, 0)
		if !ok {
			ps.fail("bad integer %q", t.text)
		}
		return SIntLit{n}
	case "str":
		return SStr{t.text}
	case "ident":
		switch t.text {
		case "true":
			return SBoolLit{true}
		case "false":
			return SBoolLit{false}
		case "nil":
			return SNil{}
		case "old":
			ps.expect("(")
			e := ps.expr()
			ps.expect(")")
			return SOld{e}
		case "forall", "exists":
			var vars []SVar
			for {
				n := ps.next()
				if n.kind != "ident" {
					ps.fail("expected bound variable name")
				}
				ty := ps.typeText()
				vars = append(vars, SVar{n.text, ty})
				if ps.accept(",") {
					continue
				}
				break
			}
			ps.expect("::")
			body := ps.expr()
			return SQuant{t.text == "forall", vars, body}
		case "let":
			n := ps.next()
			ps.expect("=")
			v := ps.expr()
			in := ps.next()
			if in.kind != "ident" || in.text != "in" {
				ps.fail("expected 'in' in let")
			}
			return SLet{n.text, v, ps.expr()}
		}
		if ps.isOp("(") {
			ps.p++
			return SCall{t.text, ps.args()}
		}
		return SIdent{t.text}
	case "op":
		if t.text == "(" {
			e := ps.expr()
			ps.expect(")")
			return e
		}
	}
	ps.fail("unexpected token %q", t.text)
	return nil
}

// ---- contract files ----------------------------------------------------------------------------

type Clause struct {
	Label string
	Expr  SpecExpr
	Src   string
}

type ModSpec struct {
	Items []string
	Src   string
}

type Contract struct {
	Key       string
	File      string
	Line      int
	Requires  []Clause
	Ensures   []Clause
	Loops     map[int][]Clause
	Decreases map[int]Clause
	IterEnsures map[int][]Clause
	NoPanic   bool
	Trusted   bool
	Modifies  *ModSpec
	Unmodelled bool
	Callsites  []CallsiteClause
	Assumed    []Clause
}

type SpecFunc struct {
	Name    string
	Params  []SVar
	Ret     string
	Body    SpecExpr // nil = uninterpreted
	Src     string
	Pkg     string // short package path it was declared in ("" = global)
	Rec     bool
	Ghost   bool // a ghost field: heap array indexed by the single parameter
	ReadsHeap bool // uninterpreted function of its arguments and the whole heap (`reads heap`)
	ReadsReach bool
}

type Axiom struct {
	Name string
	Expr SpecExpr
	Src  string
	Pkg  string
}

type SpecFile struct {
	Contracts []*Contract
	Funcs     []*SpecFunc
	Axioms    []*Axiom
	Lemmas    []*Axiom
}

var clauseKeywords = map[string]bool{"func": true, "requires": true, "ensures": true, "loop": true, "nopanic": true,
	"modifies": true, "trusted": true, "spec": true, "axiom": true, "lemma": true, "pure": true, "ghost": true, "callsite": true, "assumed": true}

type CallsiteClause struct {
	Callee string
	Clause Clause
}

// ParseSpecFile reads the "//@" lines of a contract file. pkg is the short package path used to
// qualify unqualified function keys.
func ParseSpecFile(path, text, pkg string) (*SpecFile, error) {
	sf := &SpecFile{}
	type rawLine struct {
		n int
		s string
	}
	var lines []rawLine
	for i, l := range strings.Split(text, "\n") {
		t := strings.TrimSpace(l)
		if !strings.HasPrefix(t, "//@") {
			continue
		}
		body := strings.TrimSpace(t[3:])
		if body == "" {
			continue
		}
		first := body
		if j := strings.IndexAny(body, " \t[("); j >= 0 {
			first = body[:j]
		}
		if !clauseKeywords[first] && len(lines) > 0 {
			lines[len(lines)-1].s += " " + body // continuation
			continue
		}
		lines = append(lines, rawLine{i + 1, body})
	}
	var cur *Contract
	for _, rl := range lines {
		errf := func(f string, a ...any) error {
			return fmt.Errorf("%s:%d: %s", path, rl.n, fmt.Sprintf(f, a...))
		}
		word, rest := splitWord(rl.s)
		label := ""
		if strings.HasPrefix(rest, "[") && (word == "ensures" || word == "requires" || word == "axiom" || word == "lemma" || word == "assumed") {
			j := strings.Index(rest, "]")
			label = rest[1:j]
			rest = strings.TrimSpace(rest[j+1:])
		}
		switch word {
		case "func":
			key := normalizeKey(pkg, strings.TrimSpace(rest))
			cur = &Contract{Key: key, File: path, Line: rl.n, Loops: map[int][]Clause{}, Decreases: map[int]Clause{}}
			sf.Contracts = append(sf.Contracts, cur)
		case "requires", "ensures", "assumed":
			if cur == nil {
				return nil, errf("%s outside a func block", word)
			}
			e, err := ParseSpecExpr(rest)
			if err != nil {
				return nil, errf("%v", err)
			}
			if label == "" {
				if word == "ensures" {
					label = fmt.Sprintf("e%d", len(cur.Ensures)+1)
				} else {
					label = fmt.Sprintf("r%d", len(cur.Requires)+1)
				}
			}
			cl := Clause{Label: label, Expr: e, Src: word + " " + rest}
			switch word {
			case "requires":
				cur.Requires = append(cur.Requires, cl)
			case "assumed":
				// a postcondition callers may rely on but that is NOT checked against the body
				// (reported as an assumption wherever it is used)
				cur.Assumed = append(cur.Assumed, cl)
			default:
				cur.Ensures = append(cur.Ensures, cl)
			}
		case "loop":
			if cur == nil {
				return nil, errf("loop outside a func block")
			}
			var n int
			w2, r2 := splitWord(rest)
			if _, err := fmt.Sscanf(w2, "%d", &n); err != nil {
				return nil, errf("loop needs an ordinal")
			}
			w3, r3 := splitWord(r2)
			lab := ""
			if strings.HasPrefix(w3, "invariant[") {
				j := strings.Index(w3, "]")
				lab = w3[len("invariant["):j]
				w3 = "invariant"
			} else if strings.HasPrefix(r3, "[") && w3 == "invariant" {
				j := strings.Index(r3, "]")
				lab = r3[1:j]
				r3 = strings.TrimSpace(r3[j+1:])
			} else if strings.HasPrefix(w3, "iterensures[") {
				j := strings.Index(w3, "]")
				lab = w3[len("iterensures["):j]
				w3 = "iterensures"
			} else if strings.HasPrefix(r3, "[") && w3 == "iterensures" {
				j := strings.Index(r3, "]")
				lab = r3[1:j]
				r3 = strings.TrimSpace(r3[j+1:])
			}
			e, err := ParseSpecExpr(r3)
			if err != nil {
				return nil, errf("%v", err)
			}
			switch w3 {
			case "invariant":
				if lab == "" {
					lab = fmt.Sprintf("i%d", len(cur.Loops[n])+1)
				}
				cur.Loops[n] = append(cur.Loops[n], Clause{Label: lab, Expr: e, Src: "invariant " + r3})
			case "iterensures":
				// holds at the end of every iteration (checked at the back edge only; the body's
				// local variables are in scope) - not assumed at the loop head
				if lab == "" {
					lab = fmt.Sprintf("t%d", len(cur.IterEnsures[n])+1)
				}
				if cur.IterEnsures == nil {
					cur.IterEnsures = map[int][]Clause{}
				}
				cur.IterEnsures[n] = append(cur.IterEnsures[n], Clause{Label: lab, Expr: e, Src: "iterensures " + r3})
			case "decreases":
				cur.Decreases[n] = Clause{Label: "dec", Expr: e, Src: "decreases " + r3}
			default:
				return nil, errf("unknown loop clause %q", w3)
			}
		case "callsite":
			// callsite <callee-suffix> requires[label] <expr>: asserted, in the caller's context
			// (its locals are visible), at every call of a function whose key ends in the suffix
			if cur == nil {
				return nil, errf("callsite outside a func block")
			}
			callee, r2 := splitWord(rest)
			w3, r3 := splitWord(r2)
			lab := ""
			if w3 == "requires" && strings.HasPrefix(r3, "[") {
				j := strings.Index(r3, "]")
				lab = r3[1:j]
				r3 = strings.TrimSpace(r3[j+1:])
			} else if strings.HasPrefix(w3, "requires[") {
				j := strings.Index(w3, "]")
				lab = w3[len("requires["):j]
				w3 = "requires"
			}
			if w3 != "requires" {
				return nil, errf("expected: callsite <callee> requires[label] <expr>")
			}
			e, err := ParseSpecExpr(r3)
			if err != nil {
				return nil, errf("%v", err)
			}
			if lab == "" {
				lab = fmt.Sprintf("c%d", len(cur.Callsites)+1)
			}
			cur.Callsites = append(cur.Callsites, CallsiteClause{Callee: callee, Clause: Clause{Label: lab, Expr: e, Src: "callsite " + callee + " requires " + r3}})
		case "nopanic":
			if cur == nil {
				return nil, errf("nopanic outside a func block")
			}
			cur.NoPanic = true
		case "trusted":
			if cur == nil {
				return nil, errf("trusted outside a func block")
			}
			cur.Trusted = true
		case "pure":
			if cur == nil {
				return nil, errf("pure outside a func block")
			}
			cur.Modifies = &ModSpec{Src: "nothing"}
		case "modifies":
			if cur == nil {
				return nil, errf("modifies outside a func block")
			}
			ms := &ModSpec{Src: rest}
			if strings.TrimSpace(rest) != "nothing" {
				for _, it := range strings.Split(rest, ",") {
					ms.Items = append(ms.Items, strings.TrimSpace(it))
				}
			}
			cur.Modifies = ms
		case "spec":
			w2, r2 := splitWord(rest)
			if w2 != "func" {
				return nil, errf("expected 'spec func'")
			}
			f, err := parseSpecFunc(r2)
			if err != nil {
				return nil, errf("%v", err)
			}
			f.Pkg = pkg
			sf.Funcs = append(sf.Funcs, f)
			cur = nil
		case "ghost":
			f, err := parseSpecFunc(rest)
			if err != nil {
				return nil, errf("%v", err)
			}
			if len(f.Params) != 1 || f.Body != nil {
				return nil, errf("ghost declarations have the form: ghost name(key KeyType) ValueType")
			}
			f.Pkg = pkg
			f.Ghost = true
			sf.Funcs = append(sf.Funcs, f)
			cur = nil
		case "axiom", "lemma":
			e, err := ParseSpecExpr(rest)
			if err != nil {
				return nil, errf("%v", err)
			}
			a := &Axiom{Name: label, Expr: e, Src: rest, Pkg: pkg}
			if word == "axiom" {
				sf.Axioms = append(sf.Axioms, a)
			} else {
				sf.Lemmas = append(sf.Lemmas, a)
			}
			cur = nil
		default:
			return nil, errf("unknown clause %q", word)
		}
	}
	return sf, nil
}

func splitWord(s string) (string, string) {
	s = strings.TrimSpace(s)
	for i, r := range s {
		if r == ' ' || r == '\t' {
			return s[:i], strings.TrimSpace(s[i:])
		}
		if r == '[' && i > 0 && !strings.HasPrefix(s, "invariant") {
			return s[:i], s[i:]
		}
	}
	return s, ""
}

func normalizeKey(pkg, key string) string {
	if pkg == "" {
		return key
	}
	if strings.HasPrefix(key, "(") {
		end := strings.Index(key, ")")
		if end < 0 {
			return key
		}
		typ := strings.TrimPrefix(key[1:end], "*")
		if strings.Contains(typ, ".") {
			return key
		}
		star := ""
		if key[1] == '*' {
			star = "*"
		}
		return "(" + star + pkg + "." + typ + key[end:]
	}
	if strings.Contains(key, ".") {
		return key
	}
	return pkg + "." + key
}

func parseSpecFunc(s string) (*SpecFunc, error) {
	toks, err := lex(s)
	if err != nil {
		return nil, err
	}
	ps := &parser{toks: toks, src: s}
	var f *SpecFunc
	err = func() (err error) {
		defer func() {
			if r := recover(); r != nil {
				if pe, ok := r.(parseErr); ok {
					err = fmt.Errorf("%s (in %q)", string(pe), s)
					return
				}
				panic(r)
			}
		}()
		n := ps.next()
		if n.kind != "ident" {
			ps.fail("expected spec function name")
		}
		f = &SpecFunc{Name: n.text, Src: s}
		ps.expect("(")
		if !ps.accept(")") {
			for {
				pn := ps.next()
				if pn.kind != "ident" {
					ps.fail("expected parameter name")
				}
				ty := ps.typeText()
				f.Params = append(f.Params, SVar{pn.text, ty})
				if ps.accept(")") {
					break
				}
				ps.expect(",")
			}
		}
		f.Ret = ps.typeText()
		if strings.HasSuffix(f.Ret, "readsheap") {
			f.Ret = strings.TrimSuffix(f.Ret, "readsheap")
			f.ReadsHeap = true
		}
		if strings.HasSuffix(f.Ret, "readsreach") {
			// depends on the memory reachable from its first argument (by static type); falls back
			// to the whole heap when that type is not known or contains interfaces
			f.Ret = strings.TrimSuffix(f.Ret, "readsreach")
			f.ReadsHeap = true
			f.ReadsReach = true
		}
		if ps.accept("=") {
			f.Body = ps.expr()
			if ps.peek().kind != "eof" {
				ps.fail("trailing input %q", ps.peek().text)
			}
		}
		return nil
	}()
	if err != nil {
		return nil, err
	}
	f.Rec = f.Body != nil && mentionsCall(f.Body, f.Name)
	return f, nil
}

func mentionsCall(e SpecExpr, name string) bool {
	switch x := e.(type) {
	case SCall:
		if x.Fun == name {
			return true
		}
		for _, a := range x.Args {
			if mentionsCall(a, name) {
				return true
			}
		}
	case SUnary:
		return mentionsCall(x.X, name)
	case SBinary:
		return mentionsCall(x.X, name) || mentionsCall(x.Y, name)
	case SCond:
		return mentionsCall(x.C, name) || mentionsCall(x.A, name) || mentionsCall(x.B, name)
	case SSel:
		return mentionsCall(x.X, name)
	case SIndex:
		return mentionsCall(x.X, name) || mentionsCall(x.I, name)
	case SSliceE:
		return mentionsCall(x.X, name) || (x.Lo != nil && mentionsCall(x.Lo, name)) || (x.Hi != nil && mentionsCall(x.Hi, name))
	case SOld:
		return mentionsCall(x.X, name)
	case SQuant:
		return mentionsCall(x.Body, name)
	case SLet:
		return mentionsCall(x.Val, name) || mentionsCall(x.Body, name)
	}
	return false
}
