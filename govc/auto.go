package main

import (
	"go/types"

	"golang.org/x/tools/go/ssa"
	"golang.org/x/tools/go/ssa/ssautil"
)

// Auto derives simple facts about callees that carry no contract, mechanically from the lifted
// SSA of the real code on every run (nothing here is an annotation):
//   - which results are never nil (error constructors, New* functions).
type Auto struct {
	g      *Gen
	prog   *ssa.Program
	funcs  map[string]*ssa.Function
	nonNil map[*ssa.Function][]bool
	busy   map[*ssa.Function]bool
}

func NewAuto(g *Gen) *Auto {
	a := &Auto{g: g, funcs: map[string]*ssa.Function{}, nonNil: map[*ssa.Function][]bool{}, busy: map[*ssa.Function]bool{}}
	prog, spkgs := ssautil.Packages(g.pkgs, ssa.InstantiateGenerics)
	a.prog = prog
	for _, sp := range spkgs {
		if sp != nil {
			sp.Build()
		}
	}
	for fn := range ssautil.AllFunctions(prog) {
		if len(fn.Blocks) > 0 {
			a.funcs[funcKey(fn)] = fn
		}
	}
	return a
}

// NonNilResults reports, per result, whether the function with this key provably never returns nil there.
func (a *Auto) NonNilResults(key string) []bool {
	fn := a.funcs[key]
	if fn == nil {
		return nil
	}
	return a.nonNilOf(fn)
}

func (a *Auto) nonNilOf(fn *ssa.Function) []bool {
	if r, ok := a.nonNil[fn]; ok {
		return r
	}
	n := fn.Signature.Results().Len()
	if a.busy[fn] || n == 0 || len(fn.Blocks) == 0 {
		return make([]bool, n)
	}
	a.busy[fn] = true
	defer delete(a.busy, fn)
	res := make([]bool, n)
	for i := range res {
		res[i] = true
	}
	sawReturn := false
	for _, b := range fn.Blocks {
		ret, ok := b.Instrs[len(b.Instrs)-1].(*ssa.Return)
		if !ok {
			continue
		}
		sawReturn = true
		for i, v := range ret.Results {
			if res[i] && !a.valueNonNil(v, map[ssa.Value]bool{}) {
				res[i] = false
			}
		}
	}
	if !sawReturn {
		res = make([]bool, n)
	}
	a.nonNil[fn] = res
	return res
}

func (a *Auto) valueNonNil(v ssa.Value, seen map[ssa.Value]bool) bool {
	if seen[v] {
		return true // optimistic on cycles through phis; every other edge is still checked
	}
	seen[v] = true
	switch x := v.(type) {
	case *ssa.MakeInterface:
		return true
	case *ssa.Alloc, *ssa.FieldAddr, *ssa.IndexAddr, *ssa.MakeMap, *ssa.MakeChan, *ssa.MakeClosure, *ssa.Function:
		return true
	case *ssa.MakeSlice:
		return true
	case *ssa.ChangeInterface:
		return a.valueNonNil(x.X, seen)
	case *ssa.ChangeType:
		return a.valueNonNil(x.X, seen)
	case *ssa.Phi:
		for _, e := range x.Edges {
			if !a.valueNonNil(e, seen) {
				return false
			}
		}
		return true
	case *ssa.Call:
		if c := x.Call.StaticCallee(); c != nil && x.Call.Signature().Results().Len() == 1 {
			r := a.nonNilOf(c)
			return len(r) == 1 && r[0]
		}
	case *ssa.Extract:
		if call, ok := x.Tuple.(*ssa.Call); ok {
			if c := call.Call.StaticCallee(); c != nil {
				r := a.nonNilOf(c)
				return x.Index < len(r) && r[x.Index]
			}
		}
	case *ssa.Const:
		if x.Value == nil {
			return false
		}
		_, isBasic := x.Type().Underlying().(*types.Basic)
		return isBasic
	}
	return false
}
