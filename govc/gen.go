package main

import (
	"fmt"
	"go/types"
	"os"
	"path/filepath"
	"sort"
	"strings"

	"golang.org/x/tools/go/packages"
	"golang.org/x/tools/go/ssa"
	"golang.org/x/tools/go/ssa/ssautil"
)

const canopyMod = "github.com/canopy-network/canopy"

var targetPkgs = []string{"./lib", "./lib/crypto", "./lib/codec", "./bft", "./fsm", "./store", "./controller", "./p2p"}

// Gen is the per-run program context.
type Gen struct {
	repo      string
	prog      *ssa.Program
	pkgs      []*packages.Package
	spkgs     map[string]*ssa.Package // by short path
	contracts map[string]*Contract
	specFuncs map[string]*SpecFunc
	axioms    []*Axiom
	lemmas    []*Axiom
	eff       *Effects
	funcs     map[string]*ssa.Function // by key, all functions with bodies in target packages
	loadErrs  []string
	autoInfo  *Auto
	immutableGlobal map[*ssa.Global]bool
}

func Load(repo, verifDir string) (*Gen, error) {
	g := &Gen{repo: repo, spkgs: map[string]*ssa.Package{}, contracts: map[string]*Contract{}, specFuncs: map[string]*SpecFunc{}, funcs: map[string]*ssa.Function{}}
	// never let the go command rewrite /repo/go.mod: work on a private copy of go.mod/go.sum
	work := filepath.Join(verifDir, ".work")
	os.MkdirAll(work, 0o755)
	for _, f := range []string{"go.mod", "go.sum"} {
		b, err := os.ReadFile(filepath.Join(repo, f))
		if err != nil {
			return nil, err
		}
		if err := os.WriteFile(filepath.Join(work, "repo."+f), b, 0o644); err != nil {
			return nil, err
		}
	}
	// -modfile needs go.sum next to it under the same stem
	os.Rename(filepath.Join(work, "repo.go.mod"), filepath.Join(work, "repo.mod"))
	os.Rename(filepath.Join(work, "repo.go.sum"), filepath.Join(work, "repo.sum"))
	os.Setenv("PATH", "/opt/veriftools/go1.26.8/bin:"+os.Getenv("PATH"))
	cfg := &packages.Config{
		Mode:       packages.LoadSyntax,
		Dir:        repo,
		BuildFlags: []string{"-tags=verif", "-modfile=" + filepath.Join(work, "repo.mod")},
		Env: append(os.Environ(), "GOFLAGS=-mod=mod", "GOPROXY=off", "GOSUMDB=off", "GOTOOLCHAIN=local",
			"PATH=/opt/veriftools/go1.26.8/bin:"+os.Getenv("PATH")),
	}
	pkgs, err := packages.Load(cfg, targetPkgs...)
	if err != nil {
		return nil, err
	}
	for _, p := range pkgs {
		for _, e := range p.Errors {
			g.loadErrs = append(g.loadErrs, e.Error())
		}
	}
	if len(g.loadErrs) > 0 {
		return nil, fmt.Errorf("package load errors:\n%s", strings.Join(g.loadErrs, "\n"))
	}
	g.pkgs = pkgs
	prog, spkgs := ssautil.Packages(pkgs, ssa.NaiveForm|ssa.InstantiateGenerics)
	g.prog = prog
	for i, sp := range spkgs {
		if sp == nil {
			return nil, fmt.Errorf("no SSA for %s", pkgs[i].PkgPath)
		}
		sp.Build()
		g.spkgs[shortPkg(sp.Pkg.Path())] = sp
	}
	for fn := range ssautil.AllFunctions(prog) {
		if fn.Pkg == nil && fn.Parent() == nil {
			// synthetic wrappers of methods still carry an object
		}
		if len(fn.Blocks) == 0 {
			continue
		}
		k := funcKey(fn)
		if old, ok := g.funcs[k]; ok && old != fn {
			continue
		}
		g.funcs[k] = fn
	}
	// contract files: //go:build verif comment-only files in the target packages, plus
	// repository-independent assumed contracts under verifDir/spec
	for _, p := range pkgs {
		short := shortPkg(p.PkgPath)
		dir := filepath.Join(repo, short)
		matches, _ := filepath.Glob(filepath.Join(dir, "zz_contracts*_verif.go"))
		sort.Strings(matches)
		for _, m := range matches {
			if err := g.loadSpecFile(m, short); err != nil {
				return nil, err
			}
		}
	}
	matches, _ := filepath.Glob(filepath.Join(verifDir, "spec", "*.contracts"))
	sort.Strings(matches)
	for _, m := range matches {
		if err := g.loadSpecFile(m, ""); err != nil {
			return nil, err
		}
	}
	g.computeImmutableGlobals()
	immutableGlobals = g.immutableGlobal
	g.eff = NewEffects(g)
	return g, nil
}

func (g *Gen) loadSpecFile(path, pkg string) error {
	b, err := os.ReadFile(path)
	if err != nil {
		return err
	}
	sf, err := ParseSpecFile(path, string(b), pkg)
	if err != nil {
		return err
	}
	for _, c := range sf.Contracts {
		if old, dup := g.contracts[c.Key]; dup {
			return fmt.Errorf("%s:%d: duplicate contract for %s (first at %s:%d)", c.File, c.Line, c.Key, old.File, old.Line)
		}
		// a clause taken on trust may only speak about state the frame lets change: with an inferred
		// frame, an `assumed` (or trusted) postcondition about ghost state the body never writes would
		// contradict the frame and silently prune the path - so such contracts must declare their frame
		if (len(c.Assumed) > 0 || (c.Trusted && len(c.Ensures) > 0)) && c.Modifies == nil {
			return fmt.Errorf("%s:%d: contract for %s has clauses taken on trust (assumed/trusted) but no declared frame: add `modifies ...` or `pure`", c.File, c.Line, c.Key)
		}
		g.contracts[c.Key] = c
	}
	for _, f := range sf.Funcs {
		g.specFuncs[f.Name] = f
	}
	g.axioms = append(g.axioms, sf.Axioms...)
	g.lemmas = append(g.lemmas, sf.Lemmas...)
	return nil
}

func (g *Gen) lookupSpecFunc(name string, pkg *types.Package) *SpecFunc {
	return g.specFuncs[name]
}

func (g *Gen) typesPkg(short string) *types.Package {
	if sp, ok := g.spkgs[short]; ok {
		return sp.Pkg
	}
	return nil
}

// VerifyFunction generates the obligations of one function under contract.
func (g *Gen) VerifyFunction(key string) (obls []*Obligation, fx *FnExec) {
	ct := g.contracts[key]
	fn := g.funcs[key]
	if fn == nil {
		return []*Obligation{{Name: key + "#target", Kind: "unsupported", Fn: key, Goal: TTrue,
			Err: "function under contract not found in /repo (renamed or removed?)"}}, nil
	}
	fx = g.NewFnExec(fn, ct)
	var err error
	func() {
		defer func() {
			if r := recover(); r != nil {
				switch e := r.(type) {
				case SpecError:
					err = e
				case Unsupported:
					err = e
				default:
					panic(r)
				}
			}
		}()
		err = fx.Run()
	}()
	if err != nil {
		return []*Obligation{{Name: key + "#generate", Kind: "unsupported", Fn: key, Goal: TTrue, Err: err.Error(), Script: fx.sc}}, fx
	}
	if ct != nil {
		for n := range ct.Loops {
			if n > len(fx.loopList) {
				fx.obls = append(fx.obls, &Obligation{Name: fmt.Sprintf("%s#loop%d", key, n), Kind: "unsupported", Fn: key, Goal: TTrue,
					Err: fmt.Sprintf("contract names loop %d but the function has %d loops", n, len(fx.loopList))})
			}
		}
	}
	return fx.obls, fx
}
