package main

import (
	"sort"
	"go/token"
	"strconv"
	"fmt"
	"go/types"
	"strings"

	"golang.org/x/tools/go/ssa"
)

func shortPkg(path string) string {
	return strings.TrimPrefix(path, "github.com/canopy-network/canopy/")
}

// funcKey is the stable name of a function used in contract files and obligation names.
func funcKey(fn *ssa.Function) string {
	s := fn.String()
	s = strings.ReplaceAll(s, "github.com/canopy-network/canopy/", "")
	return s
}

func ifaceMethodKey(m *types.Func) string {
	s := m.FullName()
	s = strings.ReplaceAll(s, "github.com/canopy-network/canopy/", "")
	return s
}

// doCall executes a call instruction (also used for deferred calls) and returns its results.
func (fx *FnExec) doCall(st *State, instr ssa.Instruction, c *ssa.CallCommon) []Term {
	sig := c.Signature()
	if b, ok := c.Value.(*ssa.Builtin); ok {
		return fx.builtin(st, b, c, instr)
	}
	var args []Term
	var argTypes []types.Type
	var argVals []ssa.Value
	var key string
	var callee *ssa.Function
	var names []string
	if c.IsInvoke() {
		key = ifaceMethodKey(c.Method)
		recv := fx.val(c.Value)
		fx.implicit(st, "nil", App("distinct", SBool, App("if.tag", SInt, recv), TZero))
		args = append(args, recv)
		argTypes = append(argTypes, c.Value.Type())
		argVals = append(argVals, c.Value)
		names = append(names, "self")
		msig := c.Method.Type().(*types.Signature)
		for i := 0; i < msig.Params().Len(); i++ {
			names = append(names, msig.Params().At(i).Name())
		}
	} else {
		callee = c.StaticCallee()
		mc, _ := c.Value.(*ssa.MakeClosure)
		if callee == nil {
			// f := func(){...}; f(): a local assigned one function literal is that literal
			if m := fx.closureOf(c.Value); m != nil {
				if fn, ok := m.Fn.(*ssa.Function); ok && fx.g.contracts[funcKey(fn)] != nil {
					mc, callee = m, fn
				}
			}
		}
		if callee != nil {
			key = funcKey(callee)
			if mc != nil {
				// bindings become leading "free variable" arguments, named after the captured vars
				for i, b := range mc.Bindings {
					args = append(args, fx.val(b))
					argTypes = append(argTypes, b.Type())
					argVals = append(argVals, b)
					names = append(names, "&"+callee.FreeVars[i].Name())
				}
			}
			if len(callee.Params) > 0 {
				for _, p := range callee.Params {
					names = append(names, p.Name())
				}
			} else {
				if r := callee.Signature.Recv(); r != nil {
					n := r.Name()
					if n == "" || n == "_" {
						n = "self"
					}
					names = append(names, n)
				}
				for i := 0; i < callee.Signature.Params().Len(); i++ {
					names = append(names, callee.Signature.Params().At(i).Name())
				}
			}
		} else {
			key = "<dynamic>"
		}
	}
	for _, a := range c.Args {
		args = append(args, fx.val(a))
		argTypes = append(argTypes, a.Type())
		argVals = append(argVals, a)
	}
	// caller-side call-site clauses (the caller's locals are visible). Inside a helper executed in place the
	// clauses of the function it was inlined into apply, evaluated in that function's scope at the call of
	// the helper (a clause that cannot be evaluated there - it names a local of a different shape - is
	// skipped: the extraction of a helper must not turn into an alarm by itself)
	cfx, cpos, inlinedCtx := fx, instr.Pos(), false
	for cfx.contract == nil && cfx.inlineParent != nil {
		cpos, cfx, inlinedCtx = cfx.inlineAt, cfx.inlineParent, true
	}
	if cfx.contract != nil {
		for _, cs := range cfx.contract.Callsites {
			// "<callee>@N": only the N-th call site of that callee in this function, in source order
			calleeName, wantOrd := cs.Callee, 0
			if at := strings.LastIndex(calleeName, "@"); at > 0 {
				if n, err := strconv.Atoi(calleeName[at+1:]); err == nil {
					calleeName, wantOrd = calleeName[:at], n
				}
			}
			if !calleeMatches(key, calleeName) {
				continue
			}
			if wantOrd > 0 && (inlinedCtx || fx.siteOrdinal(instr, calleeName) != wantOrd) {
				continue
			}
			func() {
				if inlinedCtx {
					defer func() {
						if r := recover(); r != nil {
							if _, isS := r.(SpecError); !isS {
								panic(r)
							}
						}
					}()
				}
				env := cfx.specEnv(st, cfx.entry, nil, true)
				env.pos = cpos
				for i, n := range names {
					if i < len(args) && n != "" && n != "_" {
						env.vars["callee."+n] = SpecVal{T: args[i], Ty: argTypes[i]}
					}
				}
				for i := range args {
					env.vars[fmt.Sprintf("arg%d", i)] = SpecVal{T: args[i], Ty: argTypes[i]}
				}
				ord := cfx.ordinal("callsite." + cs.Callee + "." + cs.Clause.Label)
				suffix := ""
				if ord > 1 {
					suffix = fmt.Sprintf("@%d", ord)
				}
				saved := cfx.curInstr
				cfx.AssertClause(st, env, fmt.Sprintf("callsite.%s.%s%s", lastSeg(cs.Callee), cs.Clause.Label, suffix), "callsite", cs.Clause)
				cfx.curInstr = saved
			}()
		}
	}
	ct := fx.g.contracts[key]
	resTypes := make([]types.Type, sig.Results().Len())
	for i := range resTypes {
		resTypes[i] = sig.Results().At(i).Type()
	}
	// addresses of locals / interior locations handed to the callee: it may write through them
	var escaped []*Ptr
	for _, a := range argVals {
		if p, ok := fx.ptrs[a]; ok && !(p.Kind == PHeap && len(p.Path) == 0) {
			escaped = append(escaped, p)
		}
	}
	pre := st.Clone()
	pre.frozen = true
	callName := key
	if ct != nil {
		ord := fx.ordinal("call." + key)
		suffix := ""
		if ord > 1 {
			suffix = fmt.Sprintf("@%d", ord)
		}
		if ct.Trusted {
			fx.assumed[key] = true
		} else {
			fx.usedCtr[key] = true
		}
		env := &SpecEnv{fx: fx, st: st, old: pre, vars: map[string]SpecVal{}, pkg: fx.contractPkg(ct, callee, c)}
		for i, n := range names {
			if i < len(args) && n != "" && n != "_" {
				sv := SpecVal{T: args[i], Ty: argTypes[i]}
				if mi, ok := argVals[i].(*ssa.MakeInterface); ok {
					sv.Dyn = mi.X.Type()
				}
				env.vars[n] = sv
			}
		}
		for i := range args {
			env.vars[fmt.Sprintf("arg%d", i)] = SpecVal{T: args[i], Ty: argTypes[i]}
		}
		for _, cl := range ct.Requires {
			fx.AssertClause(st, env, fmt.Sprintf("call.%s.%s%s", key, cl.Label, suffix), "requires-callsite", cl)
		}
		// frame
		var ms *ModSet
		if ct.Modifies != nil {
			ms = ct.Modifies.ResolveAt(fx, env.pkg, names, argVals, args, argTypes)
		} else if callee != nil && len(callee.Blocks) > 0 {
			ms = fx.g.eff.of(callee)
		} else {
			ms = fx.g.eff.external(key)
		}
		fx.Havoc(st, ms)
		for _, p := range escaped {
			fx.HavocLoc(st, p)
		}
		results := fx.freshResults(st, callName, resTypes)
		env.st = st
		rs := sig.Results()
		for i := 0; i < rs.Len(); i++ {
			v := SpecVal{T: results[i], Ty: rs.At(i).Type()}
			env.vars[fmt.Sprintf("result%d", i)] = v
			if rs.Len() == 1 {
				env.vars["result"] = v
			}
			if n := rs.At(i).Name(); n != "" && n != "_" {
				if _, clash := env.vars[n]; !clash {
					env.vars[n] = v
				}
			}
		}
		for _, cl := range ct.Ensures {
			if calleeInternalClause(cl.Expr) {
				continue // speaks about the callee's own calls / locals: checked there, says nothing a caller could use
			}
			fx.sc.Assume(Implies(st.R, env.EvalBool(cl.Expr)))
		}
		for _, cl := range ct.Assumed {
			fx.assumed[key+"#"+cl.Label+" (assumed postcondition)"] = true
			fx.sc.Assume(Implies(st.R, env.EvalBool(cl.Expr)))
		}
		return results
	}
	// no contract: a small loop-free helper of this repository is executed in place (see inline.go) ...
	if callee != nil && !c.IsInvoke() {
		if _, isClosure := c.Value.(*ssa.MakeClosure); !isClosure {
			if res, ok := fx.tryInline(st, callee, args, instr.Pos()); ok {
				return res
			}
		}
	}
	// ... otherwise results are unconstrained and the frame is the inferred write set
	var ms *ModSet
	switch {
	case callee != nil && len(callee.Blocks) > 0:
		ms = fx.g.eff.of(callee)
	case key == "<dynamic>":
		ms = &ModSet{All: true}
		if mc := fx.closureOf(c.Value); mc != nil {
			ms = fx.g.eff.of(mc.Fn.(*ssa.Function))
			key = funcKey(mc.Fn.(*ssa.Function))
		} else if gs := returnedClosuresOf(c.Value); len(gs) > 0 {
			// unlock := lockWithTrace(...); unlock(): the value called is one of the function literals F returns
			ms = NewModSet()
			for _, g := range gs {
				gm := fx.g.eff.of(g)
				if gm.All {
					ms.All = true
				}
				for k := range gm.Keys {
					ms.Add(k)
				}
			}
			key = funcKey(gs[0])
		}
	default:
		ms = fx.g.eff.external(key)
	}
	fx.opaque[key]++
	fx.Havoc(st, ms)
	for _, p := range escaped {
		fx.HavocLoc(st, p)
	}
	results := fx.freshResults(st, callName, resTypes)
	// facts derived mechanically from the callee's own code (never-nil results)
	if nn := fx.g.auto().NonNilResults(key); nn != nil {
		for i, isNN := range nn {
			if !isNN || i >= len(results) {
				continue
			}
			switch results[i].Sort {
			case SIface:
				fx.sc.Assume(App("distinct", SBool, App("if.tag", SInt, results[i]), TZero))
			case SInt:
				if _, isPtr := resTypes[i].Underlying().(*types.Pointer); isPtr {
					fx.sc.Assume(App("distinct", SBool, results[i], TZero))
				}
			}
		}
	}
	return results
}

func (fx *FnExec) closureOf(v ssa.Value) *ssa.MakeClosure { return closureOfValue(v) }

func closureOfValue(v ssa.Value) *ssa.MakeClosure {
	if mc, ok := v.(*ssa.MakeClosure); ok {
		return mc
	}
	// a local variable that is assigned a function literal exactly once: f := func(){...}; f()
	if ld, ok := v.(*ssa.UnOp); ok && ld.Op.String() == "*" {
		if a, ok := ld.X.(*ssa.Alloc); ok && !a.Heap && a.Referrers() != nil {
			var found *ssa.MakeClosure
			for _, r := range *a.Referrers() {
				switch s := r.(type) {
				case *ssa.Store:
					if s.Addr != a {
						return nil
					}
					mc, isMC := s.Val.(*ssa.MakeClosure)
					if !isMC || found != nil {
						return nil
					}
					found = mc
				case *ssa.UnOp, *ssa.DebugRef:
				default:
					return nil
				}
			}
			return found
		}
	}
	return nil
}

func (fx *FnExec) contractPkg(ct *Contract, callee *ssa.Function, c *ssa.CallCommon) *types.Package {
	if callee != nil {
		if callee.Pkg != nil {
			return callee.Pkg.Pkg
		}
		if callee.Parent() != nil && callee.Parent().Pkg != nil {
			return callee.Parent().Pkg.Pkg
		}
		if o := callee.Object(); o != nil {
			return o.Pkg()
		}
	}
	if c.IsInvoke() && c.Method.Pkg() != nil {
		return c.Method.Pkg()
	}
	if fx.fn.Pkg != nil {
		return fx.fn.Pkg.Pkg
	}
	return nil
}

func (fx *FnExec) freshResults(st *State, hint string, tys []types.Type) []Term {
	out := make([]Term, len(tys))
	for i, t := range tys {
		v := fx.sc.Fresh("r$"+lastSeg(hint), fx.tc.SortOf(t))
		fx.assumeValue(st, v, t)
		out[i] = v
	}
	return out
}

func lastSeg(s string) string {
	if i := strings.LastIndex(s, "."); i >= 0 {
		return s[i+1:]
	}
	return s
}

func (fx *FnExec) builtin(st *State, b *ssa.Builtin, c *ssa.CallCommon, instr ssa.Instruction) []Term {
	switch b.Name() {
	case "len":
		x := fx.val(c.Args[0])
		switch u := c.Args[0].Type().Underlying().(type) {
		case *types.Slice:
			return []Term{App("sl.len", SInt, x)}
		case *types.Basic:
			fx.sc.Declare("strlen", "(declare-fun strlen (Int) Int)")
			return []Term{App("strlen", SInt, x)}
		case *types.Map:
			fx.sc.Declare("uf:maplen", "(declare-fun maplen (Int) Int)")
			r := fx.sc.Fresh("maplen", SInt)
			fx.sc.Assume(App(">=", SBool, r, TZero))
			return []Term{r}
		case *types.Array:
			return []Term{IntLit(u.Len())}
		case *types.Pointer:
			return []Term{IntLit(u.Elem().Underlying().(*types.Array).Len())}
		case *types.Chan:
			r := fx.sc.Fresh("chanlen", SInt)
			fx.sc.Assume(App(">=", SBool, r, TZero))
			return []Term{r}
		}
	case "cap":
		x := fx.val(c.Args[0])
		switch u := c.Args[0].Type().Underlying().(type) {
		case *types.Slice:
			return []Term{App("sl.cap", SInt, x)}
		case *types.Array:
			return []Term{IntLit(u.Len())}
		case *types.Pointer:
			if at, ok := u.Elem().Underlying().(*types.Array); ok {
				return []Term{IntLit(at.Len())}
			}
		case *types.Chan:
			// the capacity of a channel is not modelled: some non-negative number
			r := fx.sc.Fresh("chancap", SInt)
			fx.sc.Assume(App(">=", SBool, r, TZero))
			return []Term{r}
		}
	case "append":
		return []Term{fx.builtinAppend(st, c, instr)}
	case "copy":
		return []Term{fx.builtinCopy(st, c)}
	case "delete":
		mt := c.Args[0].Type().Underlying().(*types.Map)
		m, k := fx.val(c.Args[0]), fx.val(c.Args[1])
		dk, _ := fx.tc.MapKeys(mt)
		d := fx.Heap(st, dk)
		fx.SetHeap(st, dk, Ite(Eq(m, TZero), d, Store(d, m, Store(Select(d, m), k, TFalse))))
		return nil
	case "min", "max":
		op := "imin"
		if b.Name() == "max" {
			op = "imax"
		}
		acc := fx.val(c.Args[0])
		for _, a := range c.Args[1:] {
			acc = App(op, SInt, acc, fx.val(a))
		}
		return []Term{acc}
	case "print", "println":
		return nil
	case "recover":
		// on a normal (non-panicking) path recover() returns nil. A function whose own contract speaks about
		// resultof(recover) - a deferred recovery handler - is checked for BOTH cases: what recover() returns is left
		// open (nil: the enclosing function returned normally; non-nil: it is panicking).
		if fx.inlineParent == nil && fx.contract != nil && contractSpeaksOfRecover(fx.contract) {
			return []Term{fx.sc.Fresh("recovered", fx.tc.SortOf(c.Signature().Results().At(0).Type()))}
		}
		return []Term{fx.tc.Zero(c.Signature().Results().At(0).Type())}
	case "ssa:wrapnilchk":
		return []Term{fx.val(c.Args[0])}
	case "ssa:deferstack":
		return []Term{TZero}
	case "clear":
		unsupported("builtin clear")
	}
	unsupported("builtin %s in %s", b.Name(), fx.key)
	return nil
}

// staticLen returns the length of a slice value when it is a compile-time constant
// (the varargs pattern: slice of a freshly allocated [N]T).
func staticLen(v ssa.Value) (int64, bool) {
	if s, ok := v.(*ssa.Slice); ok && s.Low == nil && s.High == nil {
		if pt, ok := s.X.Type().Underlying().(*types.Pointer); ok {
			if at, ok := pt.Elem().Underlying().(*types.Array); ok {
				return at.Len(), true
			}
		}
	}
	if c, ok := v.(*ssa.Const); ok && c.Value == nil {
		return 0, true
	}
	return 0, false
}

func (fx *FnExec) builtinAppend(st *State, c *ssa.CallCommon, instr ssa.Instruction) Term {
	s := fx.val(c.Args[0])
	slT := c.Args[0].Type().Underlying().(*types.Slice)
	et := slT.Elem()
	key := fx.tc.ElemKey(et)
	es := fx.tc.SortOf(et)
	var e Term
	if b, ok := c.Args[1].Type().Underlying().(*types.Basic); ok && b.Info()&types.IsString != 0 {
		// append([]byte, string...)
		str := fx.val(c.Args[1])
		fx.declBytes()
		ref := fx.newRef(st, "appstr")
		ln := App("strlen", SInt, str)
		e = fx.sc.Define("appstr", App("mk-slice", SSlice, ref, TZero, ln, ln))
	} else {
		e = fx.val(c.Args[1])
	}
	sLen, eLen := App("sl.len", SInt, s), App("sl.len", SInt, e)
	newLen := fx.sc.Define("applen", App("+", SInt, sLen, eLen))
	fits := fx.sc.Define("appfits", App("<=", SBool, newLen, App("sl.cap", SInt, s)))
	h := fx.Heap(st, key)
	sBase, sOff := App("sl.base", SInt, s), App("sl.off", SInt, s)
	eArr := Select(h, App("sl.base", SInt, e))
	eOff := App("sl.off", SInt, e)
	// in-place result
	inArr := Select(h, sBase)
	// reallocated result: fresh base, content copied
	nref := fx.newRef(st, "append")
	ncap := fx.sc.Fresh("appcap", SInt)
	fx.sc.Assume(And(App(">=", SBool, ncap, newLen), App("<=", SBool, ncap, Term{"281474976710656", SInt})))
	newArr := fx.sc.Fresh("apparr", ArraySort(SInt, es))
	if n, ok := staticLen(c.Args[1]); ok && n <= 8 {
		for j := int64(0); j < n; j++ {
			ev := Select(eArr, App("+", SInt, eOff, IntLit(j)))
			inArr = Store(inArr, App("+", SInt, sOff, App("+", SInt, sLen, IntLit(j))), ev)
			fx.sc.Assume(Eq(Select(newArr, App("+", SInt, sLen, IntLit(j))), ev))
		}
	} else {
		// symbolic number of appended elements: quantified description of both outcomes
		inA := fx.sc.Fresh("appin", ArraySort(SInt, es))
		old := fx.sc.Define("appold", Select(h, sBase))
		fx.sc.Assume(Term{fmt.Sprintf("(forall ((j!q Int)) (= (select %s j!q) (ite (and (<= (+ %s %s) j!q) (< j!q (+ %s %s))) (select %s (+ %s (- j!q (+ %s %s)))) (select %s j!q))))",
			inA.S, sOff.S, sLen.S, sOff.S, newLen.S, eArr.S, eOff.S, sOff.S, sLen.S, old.S), SBool})
		inArr = inA
		fx.sc.Assume(Term{fmt.Sprintf("(forall ((j!q Int)) (=> (and (<= %s j!q) (< j!q %s)) (= (select %s j!q) (select %s (+ %s (- j!q %s))))))",
			sLen.S, newLen.S, newArr.S, eArr.S, eOff.S, sLen.S), SBool})
	}
	// old content is carried over to the new array
	fx.sc.Assume(Term{fmt.Sprintf("(forall ((j!q Int)) (=> (and (<= 0 j!q) (< j!q %s)) (= (select %s j!q) (select (select %s %s) (+ %s j!q)))))",
		sLen.S, newArr.S, h.S, sBase.S, sOff.S), SBool})
	if freshRoot(c.Args[0]) {
		// the slice being extended lives in memory only this function instance can reach
		// (a local accumulator): whether the runtime extends it in place or copies it cannot be
		// observed, so the copy is taken as the single outcome
		fits = TFalse
	}
	fx.SetHeap(st, key, Ite(fits, Store(h, sBase, inArr), Store(h, nref, newArr)))
	res := Ite(fits,
		App("mk-slice", SSlice, sBase, sOff, newLen, App("sl.cap", SInt, s)),
		App("mk-slice", SSlice, nref, TZero, newLen, ncap))
	// appending nothing to a nil slice yields nil
	res = Ite(And(Eq(sBase, TZero), Eq(eLen, TZero)), s, res)
	name := "append"
	if v, ok := instr.(ssa.Value); ok {
		name = v.Name()
	}
	r := fx.sc.Define(name, res)
	fx.sc.Assume(fx.tc.WellTyped(r, c.Args[0].Type(), 0))
	return r
}

func (fx *FnExec) builtinCopy(st *State, c *ssa.CallCommon) Term {
	dst := fx.val(c.Args[0])
	et := c.Args[0].Type().Underlying().(*types.Slice).Elem()
	key := fx.tc.ElemKey(et)
	es := fx.tc.SortOf(et)
	h := fx.Heap(st, key)
	var srcArr, srcOff, srcLen Term
	if b, ok := c.Args[1].Type().Underlying().(*types.Basic); ok && b.Info()&types.IsString != 0 {
		fx.declBytes()
		str := fx.val(c.Args[1])
		srcArr = fx.sc.Fresh("strbytes", ArraySort(SInt, SInt))
		srcOff = TZero
		srcLen = App("strlen", SInt, str)
	} else {
		src := fx.val(c.Args[1])
		srcArr = Select(h, App("sl.base", SInt, src))
		srcOff = App("sl.off", SInt, src)
		srcLen = App("sl.len", SInt, src)
	}
	n := fx.sc.Define("copyn", App("imin", SInt, App("sl.len", SInt, dst), srcLen))
	dBase, dOff := App("sl.base", SInt, dst), App("sl.off", SInt, dst)
	old := fx.sc.Define("copyold", Select(h, dBase))
	srcA := fx.sc.Define("copysrc", srcArr)
	na := fx.sc.Fresh("copyarr", ArraySort(SInt, es))
	fx.sc.Assume(Term{fmt.Sprintf("(forall ((j!q Int)) (= (select %s j!q) (ite (and (<= %s j!q) (< j!q (+ %s %s))) (select %s (+ %s (- j!q %s))) (select %s j!q))))",
		na.S, dOff.S, dOff.S, n.S, srcA.S, srcOff.S, dOff.S, old.S), SBool})
	fx.SetHeap(st, key, Ite(App(">", SBool, n, TZero), Store(h, dBase, na), h))
	return n
}

// ---- modifies clauses ---------------------------------------------------------------------------

func (m *ModSpec) Resolve(fx *FnExec) *ModSet {
	var pkg *types.Package
	if fx.fn.Pkg != nil {
		pkg = fx.fn.Pkg.Pkg
	}
	return m.ResolveIn(fx, pkg)
}

// ResolveIn turns the items of a modifies clause into heap keys. Items: `*` (everything),
// `T.f` (field f of struct T), `elems(T)`, `box(T)`, `map(K,V)`, `global(name)`, or a raw key.
func (m *ModSpec) ResolveIn(fx *FnExec, pkg *types.Package) *ModSet {
	return m.ResolveAt(fx, pkg, nil, nil, nil, nil)
}

// ResolveAt resolves a modifies clause at a call site. `obj(p)` items denote the fields of the one
// object parameter p points to; without call-site information they widen to whole field arrays.
func (m *ModSpec) ResolveAt(fx *FnExec, pkg *types.Package, names []string, argVals []ssa.Value, args []Term, argTypes []types.Type) *ModSet {
	ms := NewModSet()
	env := &SpecEnv{fx: fx, pkg: pkg, vars: map[string]SpecVal{}}
	for _, it := range m.Items {
		switch {
		case it == "*":
			ms.All = true
		case strings.HasPrefix(it, "bigval(") && strings.HasSuffix(it, ")"):
			// the mathematical value of the *big.Int parameter named, and of no other big.Int
			registerHeapKey("BigVal", ArraySort(SInt, SInt))
			pname := it[7 : len(it)-1]
			idx := -1
			for i, n := range names {
				if n == pname {
					idx = i
				}
			}
			if idx < 0 || args == nil || idx >= len(args) {
				ms.Add("BigVal")
				continue
			}
			ms.At = append(ms.At, AtMod{Key: "BigVal", Idx: args[idx]})
		case strings.HasPrefix(it, "callback(") && strings.HasSuffix(it, ")"):
			// whatever the function value passed for that parameter may write: known when the argument is
			// a closure or function literal visible at the call site, everything otherwise
			pname := it[9 : len(it)-1]
			idx := -1
			for i, n := range names {
				if n == pname {
					idx = i
				}
			}
			if idx < 0 || idx >= len(argVals) {
				ms.All = true
				continue
			}
			var cfn *ssa.Function
			if mc := fx.closureOf(argVals[idx]); mc != nil {
				cfn, _ = mc.Fn.(*ssa.Function)
			} else if f, ok := argVals[idx].(*ssa.Function); ok {
				cfn = f
			}
			if cfn == nil {
				ms.All = true
				continue
			}
			cms := fx.g.eff.lookup(cfn)
			if cms == nil || cms.All {
				ms.All = true
				continue
			}
			for k := range cms.Keys {
				ms.Add(k)
			}
			ms.At = append(ms.At, cms.At...)
		case strings.HasPrefix(it, "obj(") && strings.HasSuffix(it, ")"):
			pname := it[4 : len(it)-1]
			idx := -1
			for i, n := range names {
				if n == pname {
					idx = i
				}
			}
			if idx < 0 || idx >= len(argVals) {
				// no call-site information (static effect inference): unknown object of unknown type
				ms.All = true
				continue
			}
			t := argTypes[idx]
			var ref Term
			if args != nil {
				ref = args[idx]
			}
			if mi, ok := argVals[idx].(*ssa.MakeInterface); ok {
				t = mi.X.Type()
				if args != nil {
					ref = App("if.val", SInt, args[idx])
				}
			}
			pt, ok := t.Underlying().(*types.Pointer)
			if !ok || !isStruct(pt.Elem()) {
				ms.All = true
				continue
			}
			si := fx.tc.StructOf(pt.Elem())
			for _, f := range si.Fields {
				if args != nil {
					ms.At = append(ms.At, AtMod{Key: fx.tc.FieldKey(si, f), Idx: ref})
				} else {
					ms.Add(fx.tc.FieldKey(si, f))
				}
			}
		case strings.HasPrefix(it, "elems(") && strings.HasSuffix(it, ")"):
			ms.Add(fx.tc.ElemKey(env.goType(it[6 : len(it)-1])))
		case strings.HasPrefix(it, "box(") && strings.HasSuffix(it, ")"):
			ms.Add(fx.tc.BoxKey(env.goType(it[4 : len(it)-1])))
		case strings.HasPrefix(it, "ghost(") && strings.HasSuffix(it, ")"):
			sf := fx.g.specFuncs[it[6:len(it)-1]]
			if sf == nil || !sf.Ghost {
				specFail("unknown ghost field %q in modifies", it)
			}
			genv := &SpecEnv{fx: fx, pkg: pkg, vars: map[string]SpecVal{}}
			if sf.Pkg != "" {
				if p := fx.g.typesPkg(sf.Pkg); p != nil {
					genv.pkg = p
				}
			}
			_, ks := genv.resolveType(sf.Params[0].Type)
			_, vs := genv.resolveType(sf.Ret)
			ms.Add(ghostKey(sf, ks, vs))
		case strings.HasPrefix(it, "map(") && strings.HasSuffix(it, ")"):
			parts := strings.SplitN(it[4:len(it)-1], ";", 2)
			if len(parts) != 2 {
				specFail("map(K;V) expected in modifies: %s", it)
			}
			d, v := fx.tc.MapKeys(types.NewMap(env.goType(parts[0]), env.goType(parts[1])))
			ms.Add(d)
			ms.Add(v)
		case strings.HasPrefix(it, "H$") || strings.HasPrefix(it, "E$") || strings.HasPrefix(it, "B$") || strings.HasPrefix(it, "G$") || strings.HasPrefix(it, "MD$") || strings.HasPrefix(it, "MV$") || it == "BigVal":
			if _, ok := heapSorts[it]; !ok {
				if it == "BigVal" {
					registerHeapKey("BigVal", ArraySort(SInt, SInt))
				} else {
					specFail("unknown heap key %q in modifies", it)
				}
			}
			ms.Add(it)
		default:
			i := strings.LastIndex(it, ".")
			if i < 0 {
				specFail("bad modifies item %q", it)
			}
			t := env.goType(it[:i])
			si := fx.tc.StructOf(t)
			if it[i+1:] == "*" {
				for _, f := range si.Fields {
					ms.Add(fx.tc.FieldKey(si, f))
				}
				continue
			}
			f := si.byName[it[i+1:]]
			if f == nil {
				specFail("no field %s in %s (modifies)", it[i+1:], it[:i])
			}
			ms.Add(fx.tc.FieldKey(si, f))
		}
	}
	return ms
}

// calleeMatches: a callsite clause names its callee by a suffix of the function key that starts at a
// name boundary ("AddSigner" matches "(crypto.MultiPublicKeyI).AddSigner", not "bft.ErrUnableToAddSigner").
func calleeMatches(key, suffix string) bool {
	if !strings.HasSuffix(key, suffix) {
		return false
	}
	if len(key) == len(suffix) {
		return true
	}
	switch key[len(key)-len(suffix)-1] {
	case '.', ')', '/', '*', '(':
		return true
	}
	return suffix[0] == '(' || suffix[0] == '<'
}

// siteOrdinal numbers the call sites of a callee (matched like callsite clauses match) inside the function
// under verification by source position: 1 for the first in the text, 2 for the next, ...
func (fx *FnExec) siteOrdinal(instr ssa.Instruction, calleeName string) int {
	type site struct {
		in  ssa.Instruction
		pos token.Pos
	}
	var sites []site
	for _, b := range fx.fn.Blocks {
		for _, in := range b.Instrs {
			ci, ok := in.(ssa.CallInstruction)
			if !ok {
				continue
			}
			c := ci.Common()
			key := "<dynamic>"
			if c.IsInvoke() {
				key = ifaceMethodKey(c.Method)
			} else if callee := c.StaticCallee(); callee != nil {
				key = funcKey(callee)
			}
			if calleeMatches(key, calleeName) {
				sites = append(sites, site{in, in.Pos()})
			}
		}
	}
	sort.SliceStable(sites, func(i, j int) bool { return sites[i].pos < sites[j].pos })
	for i, s := range sites {
		if s.in == instr {
			return i + 1
		}
	}
	return 0
}

// returnedClosuresOf resolves a called function value to the function literals it can be when the value is a result
// (the only one, or one component of the result tuple) of a static call to a function of this program ALL of whose
// return statements return, in that position, a closure over a function literal - directly, or through a local
// assigned exactly once from such a call. Only the literals' code is used (the union of their inferred write sets);
// nothing is assumed about which variables they captured.
func returnedClosuresOf(v ssa.Value) []*ssa.Function {
	if ld, ok := v.(*ssa.UnOp); ok && ld.Op.String() == "*" {
		a, ok := ld.X.(*ssa.Alloc)
		if !ok || a.Heap || a.Referrers() == nil {
			return nil
		}
		var src ssa.Value
		for _, r := range *a.Referrers() {
			switch s := r.(type) {
			case *ssa.Store:
				if s.Addr != a || src != nil {
					return nil
				}
				src = s.Val
			case *ssa.UnOp, *ssa.DebugRef:
			default:
				return nil
			}
		}
		v = src
	}
	idx := 0
	if ex, ok := v.(*ssa.Extract); ok {
		idx = ex.Index
		v = ex.Tuple
	}
	call, ok := v.(*ssa.Call)
	if !ok {
		return nil
	}
	f := call.Call.StaticCallee()
	if f == nil || len(f.Blocks) == 0 || idx >= f.Signature.Results().Len() {
		return nil
	}
	var lits []*ssa.Function
	for _, b := range f.Blocks {
		for _, in := range b.Instrs {
			ret, ok := in.(*ssa.Return)
			if !ok {
				continue
			}
			if idx >= len(ret.Results) {
				return nil
			}
			mcs := closuresOfValue(ret.Results[idx])
			if len(mcs) == 0 {
				return nil
			}
			for _, mc := range mcs {
				g, ok := mc.Fn.(*ssa.Function)
				if !ok {
					return nil
				}
				dup := false
				for _, l := range lits {
					if l == g {
						dup = true
					}
				}
				if !dup {
					lits = append(lits, g)
				}
			}
		}
	}
	return lits
}

// closuresOfValue: the function literals a value can be when it is a closure or the content of a local (not
// address-taken) variable that is only ever assigned closures.
func closuresOfValue(v ssa.Value) []*ssa.MakeClosure {
	if mc, ok := v.(*ssa.MakeClosure); ok {
		return []*ssa.MakeClosure{mc}
	}
	ld, ok := v.(*ssa.UnOp)
	if !ok || ld.Op.String() != "*" {
		return nil
	}
	a, ok := ld.X.(*ssa.Alloc)
	if !ok || a.Heap || a.Referrers() == nil {
		return nil
	}
	var out []*ssa.MakeClosure
	for _, r := range *a.Referrers() {
		switch s := r.(type) {
		case *ssa.Store:
			if s.Addr != a {
				return nil
			}
			mc, isMC := s.Val.(*ssa.MakeClosure)
			if !isMC {
				return nil
			}
			out = append(out, mc)
		case *ssa.UnOp, *ssa.DebugRef:
		default:
			return nil
		}
	}
	return out
}

// calleeInternalClause: a postcondition written with resultof / local / deferred / received refers to what happened
// inside the callee; it is an obligation on the callee and is not handed to callers.
func calleeInternalClause(e SpecExpr) bool {
	for _, n := range []string{"resultof", "local", "deferred", "received"} {
		if mentionsCall(e, n) {
			return true
		}
	}
	return false
}

func contractSpeaksOfRecover(ct *Contract) bool {
	var has func(e SpecExpr) bool
	has = func(e SpecExpr) bool {
		switch x := e.(type) {
		case SCall:
			if x.Fun == "resultof" && len(x.Args) > 0 {
				if id, ok := x.Args[0].(SIdent); ok && id.Name == "recover" {
					return true
				}
			}
			for _, a := range x.Args {
				if has(a) {
					return true
				}
			}
		case SUnary:
			return has(x.X)
		case SBinary:
			return has(x.X) || has(x.Y)
		case SCond:
			return has(x.C) || has(x.A) || has(x.B)
		case SSel:
			return has(x.X)
		case SIndex:
			return has(x.X) || has(x.I)
		case SOld:
			return has(x.X)
		case SQuant:
			return has(x.Body)
		case SLet:
			return has(x.Val) || has(x.Body)
		}
		return false
	}
	for _, cl := range ct.Ensures {
		if has(cl.Expr) {
			return true
		}
	}
	return false
}
