package main

import (
	"sort"

	"golang.org/x/tools/go/ssa"
)

// callersOfRequiring returns the keys of all functions (with bodies, in the loaded packages) that
// statically call - or invoke through an interface - one of the listed functions whose contract
// carries a precondition.
func (g *Gen) callersOfRequiring(keys []string) []string {
	want := map[string]bool{}
	for _, k := range keys {
		if ct := g.contracts[k]; ct != nil && len(ct.Requires) > 0 {
			want[k] = true
		}
	}
	if len(want) == 0 {
		return nil
	}
	seen := map[string]bool{}
	for key, fn := range g.funcs {
		if fn.Synthetic != "" {
			continue
		}
		for _, b := range fn.Blocks {
			for _, in := range b.Instrs {
				ci, ok := in.(ssa.CallInstruction)
				if !ok {
					continue
				}
				c := ci.Common()
				var ck string
				if c.IsInvoke() {
					ck = ifaceMethodKey(c.Method)
				} else if sc := c.StaticCallee(); sc != nil {
					ck = funcKey(sc)
				}
				if want[ck] {
					seen[key] = true
				}
			}
		}
	}
	out := make([]string, 0, len(seen))
	for k := range seen {
		out = append(out, k)
	}
	sort.Strings(out)
	return out
}
