package main

import (
	"fmt"
	"go/token"
	"go/types"
	"os"

	"golang.org/x/tools/go/ssa"
)

// Inlining of small helpers without a contract.
//
// Verification is modular: a callee is normally represented by its contract, or - without one - by its
// inferred frame and arbitrary results. That makes the harmless refactoring "extract a few lines into a
// small unexported helper" lose everything the extracted lines established. A callee that has no contract
// and is a small, loop-free, straight-forward function of this repository is therefore executed
// symbolically in place, in the caller's script and state (its own obligations - implicit run-time checks
// in `nopanic` callers, preconditions of ITS callees - are raised as obligations of the caller).
//
// Conditions (all syntactic, checked on the SSA): body present, not a method value / closure with free
// variables, no loops, no defer / go / select / recover, at most inlineMaxInstrs instructions, nesting
// depth of inlining at most inlineMaxDepth, not (mutually) recursive within that depth.
const (
	inlineMaxInstrs = 80
	inlineMaxDepth  = 2
)

func (fx *FnExec) inlinable(callee *ssa.Function) bool {
	if callee == nil || len(callee.Blocks) == 0 || len(callee.FreeVars) > 0 || callee.Signature.Variadic() {
		return false
	}
	if fx.inlineDepth >= inlineMaxDepth {
		return false
	}
	for f := fx; f != nil; f = f.inlineParent {
		if f.fn == callee {
			return false
		}
	}
	if callee.Pkg == nil || !fx.g.isTargetPkg(callee.Pkg.Pkg) {
		if os.Getenv("GOVC_DEBUG_INLINE") != "" {
			fmt.Fprintf(os.Stderr, "  reason: package not a target (%v)\n", callee.Pkg)
		}
		return false
	}
	n := 0
	for _, b := range callee.Blocks {
		for _, s := range b.Succs {
			if s.Dominates(b) {
				return false // loop
			}
		}
		for _, in := range b.Instrs {
			n++
			switch in.(type) {
			case *ssa.Defer, *ssa.Go, *ssa.Select, *ssa.MakeClosure, *ssa.Panic:
				if os.Getenv("GOVC_DEBUG_INLINE") != "" {
					fmt.Fprintf(os.Stderr, "  reason: instruction %T\n", in)
				}
				return false
			}
		}
	}
	return n <= inlineMaxInstrs
}

// tryInline executes callee in place. ok is false when the callee is not inlinable or its execution left
// the generator's subset (then nothing has been changed and the caller falls back to the opaque treatment).
func (fx *FnExec) tryInline(st *State, callee *ssa.Function, args []Term, at token.Pos) (results []Term, ok bool) {
	if !fx.inlinable(callee) {
		if os.Getenv("GOVC_DEBUG_INLINE") != "" && callee != nil {
			fmt.Fprintf(os.Stderr, "not inlinable: %s (blocks %d, freevars %d, depth %d)\n", funcKey(callee), len(callee.Blocks), len(callee.FreeVars), fx.inlineDepth)
		}
		return nil, false
	}
	sub := &FnExec{g: fx.g, fn: callee, key: fx.key, sc: fx.sc, tc: fx.tc,
		vals: map[ssa.Value]Term{}, tuples: map[ssa.Value][]Term{}, ptrs: map[ssa.Value]*Ptr{},
		closures: map[ssa.Value]*ssa.MakeClosure{}, cellIDs: fx.cellIDs, nonNil: fx.nonNil,
		params: map[string]SpecVal{}, counters: fx.counters, loops: map[*ssa.BasicBlock]*loopInfo{},
		edges: map[[2]int][]edgeIn{}, phiConds: map[*ssa.BasicBlock][]Term{}, opaque: fx.opaque,
		assumed: fx.assumed, usedCtr: fx.usedCtr, nopanic: fx.nopanic, nepoch: fx.nepoch,
		inlineDepth: fx.inlineDepth + 1, inlineParent: fx, inlineAt: at, entry: fx.entry, recDefs: fx.recDefs, inlined: fx.inlined}
	// snapshot for rollback: script position, state, counters are shared maps (ordinals only grow: harmless)
	pos := fx.sc.Pos()
	savedDefers, savedGuards := st.defers, st.dguard
	nobl := len(fx.obls)
	failed := false
	func() {
		defer func() {
			if r := recover(); r != nil {
				if os.Getenv("GOVC_DEBUG_INLINE") != "" {
					fmt.Fprintf(os.Stderr, "inline %s into %s failed: %v\n", funcKey(callee), fx.key, r)
				}
				if _, isU := r.(Unsupported); isU {
					failed = true
					return
				}
				if _, isS := r.(SpecError); isS {
					failed = true
					return
				}
				panic(r)
			}
		}()
		if len(args) != len(callee.Params) {
			failed = true
			return
		}
		for i, p := range callee.Params {
			sub.vals[p] = args[i]
		}
		// the callee runs on a copy: state objects become parents of merged epochs, and the caller's own
		// state object is overwritten with the result below
		work := st.Clone()
		work.defers, work.dguard = nil, nil
		sub.runBlocks(work)
	}()
	fx.nepoch = sub.nepoch
	if failed || len(sub.exits) == 0 {
		fx.sc.Truncate(pos)
		fx.obls = fx.obls[:nobl]
		return nil, false
	}
	// merge the callee's returns into one state and one result tuple
	ins := make([]edgeIn, len(sub.exits))
	for i, e := range sub.exits {
		// cloned: a return state may be the caller's own state object, which is overwritten below - the merged
		// epoch must not end up among its own parents
		ins[i] = edgeIn{cond: e.cond, st: e.st.Clone()}
	}
	var exit *State
	if len(ins) == 1 {
		exit = ins[0].st.Clone()
	} else {
		exit = sub.Merge("inl", ins)
	}
	nres := len(sub.exits[0].results)
	results = make([]Term, nres)
	for r := 0; r < nres; r++ {
		acc := sub.exits[len(sub.exits)-1].results[r]
		for i := len(sub.exits) - 2; i >= 0; i-- {
			acc = Ite(sub.exits[i].cond, sub.exits[i].results[r], acc)
		}
		results[r] = fx.sc.Define("inl$"+sanitize(callee.Name()), acc)
	}
	exit.defers, exit.dguard = savedDefers, savedGuards
	*st = *exit
	fx.obls = append(fx.obls, sub.obls...)
	fx.inlined[funcKey(callee)]++
	return results, true
}

func (g *Gen) isTargetPkg(p *types.Package) bool {
	if p == nil {
		return false
	}
	_, ok := g.spkgs[shortPkg(p.Path())]
	return ok
}
