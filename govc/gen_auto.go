package main

func (g *Gen) auto() *Auto {
	if g.autoInfo == nil {
		g.autoInfo = NewAuto(g)
	}
	return g.autoInfo
}
