package main

// tryGoReplay turns a solver model into a Go test run against the real code. (Filled in later.)
func tryGoReplay(g *Gen, vdir, pid string, r *Result, dir, base string) *goReplay { return nil }
