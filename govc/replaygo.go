package main

import (
	"context"
	"encoding/json"
	"fmt"
	"go/types"
	"os"
	"os/exec"
	"path/filepath"
	"sort"
	"strconv"
	"strings"
	"time"

	"golang.org/x/tools/go/ssa"
)

// Replay of a solver model against the real code.
//
// For a failed `ensures` / `nopanic` obligation with a model, the entry values of the parameters
// (and of every heap location the symbolic execution actually read in the entry state) are
// extracted from the model, turned into Go literals, and the real function is called on them by a
// test injected with `go test -overlay` (nothing is written into /repo). The run "reproduces" when
// the real results agree with the results the model predicts (nil-ness of errors and pointers,
// integers, booleans) - i.e. the real code does produce the outputs that falsify the clause - or,
// for nopanic obligations, when the real call panics.

type sx struct {
	atom string
	list []*sx
}

func parseSx(s string) []*sx {
	var stack [][]*sx
	cur := []*sx{}
	i := 0
	for i < len(s) {
		c := s[i]
		switch {
		case c == '(':
			stack = append(stack, cur)
			cur = []*sx{}
			i++
		case c == ')':
			n := &sx{list: cur}
			if n.list == nil {
				n.list = []*sx{}
			}
			cur = stack[len(stack)-1]
			stack = stack[:len(stack)-1]
			cur = append(cur, n)
			i++
		case c == ' ' || c == '\n' || c == '\t' || c == '\r':
			i++
		case c == '|':
			j := strings.IndexByte(s[i+1:], '|')
			cur = append(cur, &sx{atom: s[i : i+j+2]})
			i += j + 2
		case c == '"':
			j := i + 1
			for j < len(s) && s[j] != '"' {
				j++
			}
			cur = append(cur, &sx{atom: s[i : j+1]})
			i = j + 1
		default:
			j := i
			for j < len(s) && !strings.ContainsRune("() \n\t\r", rune(s[j])) {
				j++
			}
			cur = append(cur, &sx{atom: s[i:j]})
			i = j
		}
		if len(stack) == 0 && c == ')' {
			// top-level form complete; keep going
		}
	}
	return cur
}

func (x *sx) isList() bool { return x.list != nil }

func (x *sx) intVal() (int64, bool) {
	if !x.isList() {
		n, err := strconv.ParseInt(x.atom, 10, 64)
		if err != nil {
			// may exceed int64 (uint64 values)
			u, err2 := strconv.ParseUint(x.atom, 10, 64)
			if err2 != nil {
				return 0, false
			}
			return int64(u), true
		}
		return n, true
	}
	if len(x.list) == 2 && x.list[0].atom == "-" {
		n, ok := x.list[1].intVal()
		return -n, ok
	}
	return 0, false
}

func (x *sx) uintText() (string, bool) {
	if !x.isList() {
		if _, err := strconv.ParseUint(x.atom, 10, 64); err == nil {
			return x.atom, true
		}
		return "", false
	}
	return "", false
}

type replayPlan struct {
	fx      *FnExec
	queries []string
	vals    []*sx
	imports map[string]string // path -> name
	pkg     *types.Package
	notes   []string
	fail    string
	nvars   int
	pre     []string // statements before the call
	seen    map[string]string // ref value -> variable (aliasing of pointers)
}

func (rp *replayPlan) q(t Term) int {
	rp.queries = append(rp.queries, t.S)
	return len(rp.queries) - 1
}

func (rp *replayPlan) qualifier(p *types.Package) string {
	if p == rp.pkg {
		return ""
	}
	if n, ok := rp.imports[p.Path()]; ok {
		return n
	}
	name := p.Name()
	for _, n := range rp.imports {
		if n == name {
			name = name + strconv.Itoa(len(rp.imports))
		}
	}
	rp.imports[p.Path()] = name
	return name
}

func (rp *replayPlan) typeStr(t types.Type) string {
	return types.TypeString(t, rp.qualifier)
}

// valueNode describes how to build one Go value from model values.
type valueNode struct {
	kind   string // int bool string bytes ptr slice iface struct zero
	typ    types.Type
	q      []int // indices into queries
	fields []fieldNode
	elems  []*valueNode
}

type fieldNode struct {
	name string
	node *valueNode
}

const maxBytes = 48
const maxElems = 4

// plan builds the query plan for a value `t` of Go type `ty` in the entry state.
func (rp *replayPlan) plan(t Term, ty types.Type, depth int) *valueNode {
	fx := rp.fx
	st := fx.entry
	if depth <= 0 {
		if _, isBasic := ty.Underlying().(*types.Basic); !isBasic {
			return &valueNode{kind: "zero", typ: ty}
		}
	}
	switch u := ty.Underlying().(type) {
	case *types.Basic:
		switch {
		case u.Info()&types.IsBoolean != 0:
			return &valueNode{kind: "bool", typ: ty, q: []int{rp.q(t)}}
		case u.Info()&types.IsInteger != 0:
			return &valueNode{kind: "int", typ: ty, q: []int{rp.q(t)}}
		case u.Info()&types.IsString != 0:
			fx.sc.Declare("strlen", "(declare-fun strlen (Int) Int)")
			return &valueNode{kind: "string", typ: ty, q: []int{rp.q(t), rp.q(App("strlen", SInt, t))}}
		}
	case *types.Slice:
		n := &valueNode{kind: "slice", typ: ty}
		n.q = []int{rp.q(App("sl.base", SInt, t)), rp.q(App("sl.len", SInt, t))}
		key := fx.tc.ElemKey(u.Elem())
		if _, touched := st.epoch.vals[key]; !touched && depth > 0 {
			// contents never read: any content of the right length will do
			n.kind = "slice-len"
			return n
		}
		arr := Select(fx.Heap(st, key), App("sl.base", SInt, t))
		lim := maxElems
		if eb, ok := u.Elem().Underlying().(*types.Basic); ok && eb.Kind() == types.Uint8 {
			lim = maxBytes
			n.kind = "bytes"
			if fx.sc.preSeen["uf:bseq"] {
				// the verification condition treats byte strings abstractly (equality only): give every
				// abstract value of the model its own concrete content
				n.kind = "bytes-abs"
				n.q = append(n.q, rp.q(App("bseq", "BSeq", arr, App("sl.off", SInt, t), App("sl.len", SInt, t))))
				return n
			}
		}
		if depth <= 0 {
			lim = 0
		}
		for i := 0; i < lim; i++ {
			et := Select(arr, App("+", SInt, App("sl.off", SInt, t), IntLit(int64(i))))
			n.elems = append(n.elems, rp.plan(et, u.Elem(), depth-1))
		}
		return n
	case *types.Pointer:
		n := &valueNode{kind: "ptr", typ: ty, q: []int{rp.q(t)}}
		et := u.Elem()
		if depth <= 0 {
			return n
		}
		if isStruct(et) {
			si := fx.tc.StructOf(et)
			for _, f := range si.Fields {
				key := fx.tc.FieldKey(si, f)
				if _, touched := st.epoch.vals[key]; !touched {
					continue
				}
				// unexported fields of foreign packages cannot be set from the test
				fv := si.St.Field(f.Idx)
				if !fv.Exported() && fv.Pkg() != rp.pkg {
					rp.notes = append(rp.notes, fmt.Sprintf("field %s.%s is unexported in another package and stays zero", shortTypeName(et), f.Name))
					continue
				}
				ft := Select(fx.Heap(st, key), t)
				n.fields = append(n.fields, fieldNode{f.Name, rp.plan(ft, f.Type, depth-1)})
			}
			return n
		}
		if b, ok := et.Underlying().(*types.Basic); ok && (b.Info()&types.IsInteger != 0 || b.Info()&types.IsBoolean != 0) {
			key := fx.tc.BoxKey(et)
			if _, touched := st.epoch.vals[key]; touched {
				n.elems = []*valueNode{rp.plan(Select(fx.Heap(st, key), t), et, depth-1)}
			}
			return n
		}
		return n
	case *types.Struct:
		n := &valueNode{kind: "struct", typ: ty}
		si := fx.tc.StructOf(ty)
		for _, f := range si.Fields {
			fv := si.St.Field(f.Idx)
			if !fv.Exported() && fv.Pkg() != rp.pkg {
				continue
			}
			n.fields = append(n.fields, fieldNode{f.Name, rp.plan(si.Get(t, f), f.Type, depth-1)})
		}
		return n
	case *types.Interface:
		return &valueNode{kind: "iface", typ: ty, q: []int{rp.q(App("if.tag", SInt, t))}}
	case *types.Map:
		return &valueNode{kind: "map", typ: ty, q: []int{rp.q(t)}}
	}
	return &valueNode{kind: "zero", typ: ty}
}

// ifaceDefaults: usable stand-ins for interface-typed fields the model says are non-nil.
var ifaceDefaults = map[string]string{
	"github.com/canopy-network/canopy/lib.LoggerI": "lib.NewNullLogger()",
}

func (rp *replayPlan) newVar() string {
	rp.nvars++
	return fmt.Sprintf("v%d", rp.nvars)
}

// emit returns a Go expression for the node (emitting helper statements into rp.pre).
func (rp *replayPlan) emit(n *valueNode) string {
	ts := rp.typeStr(n.typ)
	switch n.kind {
	case "bool":
		if rp.vals[n.q[0]].atom == "true" {
			return "true"
		}
		return "false"
	case "int":
		v := rp.vals[n.q[0]]
		if bits, signed, ok := bitSize(n.typ); ok && bits < 64 && !signed {
			// values of never-constrained memory cells may be out of range in the model: any value
			// is consistent, take it modulo the type's width
			if i, ok2 := v.intVal(); ok2 {
				m := int64(1) << bits
				return fmt.Sprintf("%s(%d)", ts, ((i%m)+m)%m)
			}
		}
		if txt, ok := v.uintText(); ok {
			return fmt.Sprintf("%s(%s)", ts, txt)
		}
		if i, ok := v.intVal(); ok {
			return fmt.Sprintf("%s(%d)", ts, i)
		}
		rp.fail = "non-numeric model value for an integer"
		return "0"
	case "string":
		ln, _ := rp.vals[n.q[1]].intVal()
		if ln < 0 || ln > 64 {
			ln = 1
		}
		id, _ := rp.vals[n.q[0]].intVal()
		if id == 0 {
			return ts + `("")`
		}
		// distinct ids get distinct contents
		s := fmt.Sprintf("s%d", id)
		for int64(len(s)) < ln {
			s += "x"
		}
		return fmt.Sprintf("%s(%q)", ts, s)
	case "slice-len", "slice", "bytes":
		base, _ := rp.vals[n.q[0]].intVal()
		ln, _ := rp.vals[n.q[1]].intVal()
		if base == 0 {
			return ts + "(nil)"
		}
		if ln < 0 || ln > 4096 {
			rp.fail = fmt.Sprintf("slice of length %d in the model", ln)
			return ts + "(nil)"
		}
		if n.kind == "slice-len" {
			return fmt.Sprintf("make(%s, %d)", ts, ln)
		}
		if n.kind == "bytes-abs" {
			a := rp.vals[n.q[2]].atom
			id := 0
			if i := strings.LastIndex(a, "!"); i >= 0 {
				id, _ = strconv.Atoi(a[i+1:])
			}
			var parts []string
			for i := 0; i < int(ln); i++ {
				parts = append(parts, strconv.Itoa((id*37+i*11+1+(id/256))%256))
			}
			return fmt.Sprintf("%s{%s}", ts, strings.Join(parts, ", "))
		}
		if int(ln) > len(n.elems) {
			if n.kind == "bytes" {
				// longer than we extract: the tail is zero
				var parts []string
				for _, e := range n.elems {
					parts = append(parts, rp.emit(e))
				}
				v := rp.newVar()
				rp.pre = append(rp.pre, fmt.Sprintf("%s := make(%s, %d)", v, ts, ln))
				rp.pre = append(rp.pre, fmt.Sprintf("copy(%s, %s{%s})", v, ts, strings.Join(parts, ", ")))
				return v
			}
			// more elements than extracted (deep or long structure): truncate; the comparison of
			// results with the model decides whether the run is still the model's run
			rp.notes = append(rp.notes, fmt.Sprintf("a %s of length %d was truncated to %d elements", ts, ln, len(n.elems)))
			ln = int64(len(n.elems))
		}
		var parts []string
		for i := 0; i < int(ln); i++ {
			parts = append(parts, rp.emit(n.elems[i]))
		}
		return fmt.Sprintf("%s{%s}", ts, strings.Join(parts, ", "))
	case "ptr":
		ref, _ := rp.vals[n.q[0]].intVal()
		if ref == 0 {
			return "(" + ts + ")(nil)"
		}
		key := fmt.Sprintf("%s@%d", ts, ref)
		if v, ok := rp.seen[key]; ok {
			return v
		}
		et := n.typ.Underlying().(*types.Pointer).Elem()
		v := rp.newVar()
		rp.seen[key] = v
		if isStruct(et) {
			rp.pre = append(rp.pre, fmt.Sprintf("%s := &%s{}", v, rp.typeStr(et)))
			for _, f := range n.fields {
				rp.pre = append(rp.pre, fmt.Sprintf("%s.%s = %s", v, f.name, rp.emit(f.node)))
			}
			return v
		}
		rp.pre = append(rp.pre, fmt.Sprintf("%s := new(%s)", v, rp.typeStr(et)))
		if len(n.elems) == 1 {
			rp.pre = append(rp.pre, fmt.Sprintf("*%s = %s", v, rp.emit(n.elems[0])))
		}
		return v
	case "struct":
		var parts []string
		for _, f := range n.fields {
			parts = append(parts, fmt.Sprintf("%s: %s", f.name, rp.emit(f.node)))
		}
		return fmt.Sprintf("%s{%s}", ts, strings.Join(parts, ", "))
	case "iface":
		tag, _ := rp.vals[n.q[0]].intVal()
		if tag == 0 {
			return "nil"
		}
		if named, ok := types.Unalias(n.typ).(*types.Named); ok && named.Obj().Pkg() != nil {
			full := named.Obj().Pkg().Path() + "." + named.Obj().Name()
			if d, ok := ifaceDefaults[full]; ok {
				rp.qualifier(named.Obj().Pkg())
				if named.Obj().Pkg() == rp.pkg {
					d = strings.TrimPrefix(d, named.Obj().Pkg().Name()+".")
				}
				return d
			}
		}
		rp.fail = "non-nil value of interface type " + ts + " cannot be constructed"
		return "nil"
	case "map":
		ref, _ := rp.vals[n.q[0]].intVal()
		if ref == 0 {
			return ts + "(nil)"
		}
		return "make(" + ts + ")"
	}
	return fmt.Sprintf("*new(%s)", ts)
}

func tryGoReplay(g *Gen, vdir, pid string, r *Result, dir, base string) *goReplay {
	o := r.Obl
	fx := o.Fx
	if fx == nil || fx.fn == nil || (o.Kind != "ensures" && o.Kind != "nopanic") {
		return nil
	}
	rep := &goReplay{}
	var log strings.Builder
	defer func() {
		if rc := recover(); rc != nil {
			fmt.Fprintf(&log, "replay generation failed: %v\n", rc)
			rep.Log = log.String()
		}
	}()
	fn := fx.fn
	if fn.Pkg == nil || fn.Parent() != nil {
		log.WriteString("closures are not replayed\n")
		rep.Log = log.String()
		return rep
	}
	rp := &replayPlan{fx: fx, imports: map[string]string{}, pkg: fn.Pkg.Pkg, seen: map[string]string{}}
	var nodes []*valueNode
	for _, p := range fn.Params {
		nodes = append(nodes, rp.plan(fx.vals[p], p.Type(), 4))
	}
	// predicted results
	var resNodes []*valueNode
	nres := fn.Signature.Results().Len()
	for i := 0; i < nres && i < len(fx.resultTerms); i++ {
		rt := fn.Signature.Results().At(i).Type()
		t := fx.resultTerms[i]
		switch u := rt.Underlying().(type) {
		case *types.Interface:
			resNodes = append(resNodes, &valueNode{kind: "iface", typ: rt, q: []int{rp.q(App("if.tag", SInt, t))}})
		case *types.Pointer, *types.Map:
			resNodes = append(resNodes, &valueNode{kind: "ptr", typ: rt, q: []int{rp.q(t)}})
		case *types.Slice:
			resNodes = append(resNodes, &valueNode{kind: "slice-len", typ: rt, q: []int{rp.q(App("sl.base", SInt, t)), rp.q(App("sl.len", SInt, t))}})
		case *types.Basic:
			if u.Info()&types.IsBoolean != 0 {
				resNodes = append(resNodes, &valueNode{kind: "bool", typ: rt, q: []int{rp.q(t)}})
			} else if u.Info()&types.IsInteger != 0 {
				resNodes = append(resNodes, &valueNode{kind: "int", typ: rt, q: []int{rp.q(t)}})
			} else {
				resNodes = append(resNodes, &valueNode{kind: "zero", typ: rt})
			}
		default:
			resNodes = append(resNodes, &valueNode{kind: "zero", typ: rt})
		}
	}
	if len(rp.queries) == 0 {
		rp.queries = append(rp.queries, "true")
	}
	// ask the solver for all values at once
	text := o.Script.RenderForValues(o.Prefix, o.Goal, rp.queries)
	qf := filepath.Join(dir, base+".values.smt2")
	os.WriteFile(qf, []byte(text), 0o644)
	defer os.Remove(qf)
	ans, out, _ := raceSolvers(qf, 60)
	if ans != "sat" {
		fmt.Fprintf(&log, "could not re-obtain the model for value extraction (%s)\n", ans)
		rep.Log = log.String()
		return rep
	}
	forms := parseSx(out[strings.Index(out, "\n")+1:])
	if len(forms) == 0 || !forms[0].isList() || len(forms[0].list) != len(rp.queries) {
		fmt.Fprintf(&log, "unexpected get-value output (%d forms)\n", len(forms))
		rep.Log = log.String()
		return rep
	}
	for _, pair := range forms[0].list {
		if !pair.isList() || len(pair.list) != 2 {
			log.WriteString("malformed get-value pair\n")
			rep.Log = log.String()
			return rep
		}
		rp.vals = append(rp.vals, pair.list[1])
	}
	// build the test
	var args []string
	for i, n := range nodes {
		e := rp.emit(n)
		v := fmt.Sprintf("arg%d", i)
		rp.pre = append(rp.pre, fmt.Sprintf("%s := %s", v, e))
		args = append(args, v)
	}
	if rp.fail != "" {
		fmt.Fprintf(&log, "the model could not be turned into Go inputs: %s\n", rp.fail)
		rep.Log = log.String()
		return rep
	}
	var call string
	variadic := fn.Signature.Variadic()
	callArgs := args
	if fn.Signature.Recv() != nil {
		callArgs = args[1:]
	}
	if variadic && len(callArgs) > 0 {
		callArgs = append(append([]string(nil), callArgs[:len(callArgs)-1]...), callArgs[len(callArgs)-1]+"...")
	}
	if fn.Signature.Recv() != nil {
		call = fmt.Sprintf("%s.%s(%s)", args[0], fn.Name(), strings.Join(callArgs, ", "))
	} else {
		call = fmt.Sprintf("%s(%s)", fn.Name(), strings.Join(callArgs, ", "))
	}
	var rnames []string
	for i := 0; i < nres; i++ {
		rnames = append(rnames, fmt.Sprintf("r%d", i))
	}
	var body strings.Builder
	fmt.Fprintf(&body, "package %s\n\nimport (\n\t\"fmt\"\n\t\"testing\"\n", fn.Pkg.Pkg.Name())
	var ipaths []string
	for p := range rp.imports {
		ipaths = append(ipaths, p)
	}
	sort.Strings(ipaths)
	for _, p := range ipaths {
		fmt.Fprintf(&body, "\t%s %q\n", rp.imports[p], p)
	}
	body.WriteString(")\n\nfunc TestGovcReplay(t *testing.T) {\n\tdefer func() {\n\t\tif r := recover(); r != nil {\n\t\t\tfmt.Printf(\"GOVC-PANIC %v\\n\", r)\n\t\t}\n\t}()\n")
	for _, l := range rp.pre {
		body.WriteString("\t" + l + "\n")
	}
	if nres > 0 {
		fmt.Fprintf(&body, "\t%s := %s\n", strings.Join(rnames, ", "), call)
	} else {
		fmt.Fprintf(&body, "\t%s\n", call)
	}
	for i := 0; i < nres; i++ {
		rt := fn.Signature.Results().At(i).Type()
		switch u := rt.Underlying().(type) {
		case *types.Interface, *types.Pointer, *types.Map, *types.Slice:
			fmt.Fprintf(&body, "\tfmt.Printf(\"GOVC-RESULT %d nil=%%v\\n\", r%d == nil)\n", i, i)
		case *types.Basic:
			if u.Info()&(types.IsBoolean|types.IsInteger) != 0 {
				fmt.Fprintf(&body, "\tfmt.Printf(\"GOVC-RESULT %d val=%%v\\n\", r%d)\n", i, i)
			} else {
				fmt.Fprintf(&body, "\t_ = r%d\n", i)
			}
		default:
			fmt.Fprintf(&body, "\t_ = r%d\n", i)
		}
	}
	body.WriteString("\tfmt.Println(\"GOVC-DONE\")\n}\n")
	testSrc := body.String()
	testCopy := filepath.Join(dir, base+"_replay_test.go.txt")
	os.WriteFile(testCopy, []byte(testSrc), 0o644)
	// inject with -overlay
	pkgDir := filepath.Join(g.repo, shortPkg(fn.Pkg.Pkg.Path()))
	work, _ := os.MkdirTemp("", "govc-replay")
	defer os.RemoveAll(work)
	tf := filepath.Join(work, "zz_govc_replay_test.go")
	os.WriteFile(tf, []byte(testSrc), 0o644)
	ov, _ := json.Marshal(map[string]any{"Replace": map[string]string{filepath.Join(pkgDir, "zz_govc_replay_test.go"): tf}})
	ovf := filepath.Join(work, "overlay.json")
	os.WriteFile(ovf, ov, 0o644)
	ctx, cancel := context.WithTimeout(context.Background(), 180*time.Second)
	defer cancel()
	cmd := exec.CommandContext(ctx, "go", "test", "-overlay", ovf, "-vet=off", "-count=1", "-timeout", "60s", "-run", "^TestGovcReplay$", "-v", ".")
	cmd.Dir = pkgDir
	env := []string{}
	for _, e := range os.Environ() {
		if strings.HasPrefix(e, "GOFLAGS=") || strings.HasPrefix(e, "GOTOOLCHAIN=") || strings.HasPrefix(e, "GOSUMDB=") || strings.HasPrefix(e, "PATH=") {
			continue
		}
		env = append(env, e)
	}
	path := os.Getenv("PATH")
	path = strings.ReplaceAll(path, "/opt/veriftools/go1.26.8/bin:", "")
	env = append(env, "GOFLAGS=-mod=mod", "PATH="+path)
	cmd.Env = env
	outb, err := cmd.CombinedOutput()
	outs := string(outb)
	fmt.Fprintf(&log, "test: %s\ncommand: (cd %s && go test -overlay <ov> -vet=off -run ^TestGovcReplay$ .)\n", testCopy, pkgDir)
	if len(rp.notes) > 0 {
		fmt.Fprintf(&log, "notes: %s\n", strings.Join(rp.notes, "; "))
	}
	var keep []string
	for _, l := range strings.Split(outs, "\n") {
		if strings.HasPrefix(l, "GOVC-") || strings.Contains(l, "FAIL") || strings.Contains(l, "panic") || strings.Contains(l, "error") || strings.Contains(l, ".go:") {
			keep = append(keep, l)
		}
	}
	fmt.Fprintf(&log, "output:\n  %s\n", strings.Join(keep, "\n  "))
	if err != nil && !strings.Contains(outs, "GOVC-") {
		fmt.Fprintf(&log, "the replay test did not build or run: %v\n", err)
		rep.Log = log.String()
		return rep
	}
	panicked := strings.Contains(outs, "GOVC-PANIC")
	if o.Kind == "nopanic" {
		rep.Reproduced = panicked
		fmt.Fprintf(&log, "real code panicked: %v\n", panicked)
		rep.Log = log.String()
		return rep
	}
	if panicked || !strings.Contains(outs, "GOVC-DONE") {
		log.WriteString("the real call panicked or did not finish; the model's run is not reproduced\n")
		rep.Log = log.String()
		return rep
	}
	// scalar functions: evaluate the clause itself on the concrete inputs and the REAL outputs
	if ok, decided := concreteClauseCheck(o, fx, rp, nodes, outs, &log); decided {
		rep.Reproduced = ok
		rep.Log = log.String()
		return rep
	}
	// functions over pointers / slices / structs that write nothing the caller can see: same idea, with the
	// entry-state values the inputs were built from pinned
	if ok, decided := concreteClauseCheckHeap(o, fx, rp, outs, &log); decided && ok {
		rep.Reproduced = true
		rep.Log = log.String()
		return rep
	}
	// compare predicted and real results
	match := true
	compared := 0
	for i, n := range resNodes {
		var want string
		switch n.kind {
		case "iface":
			tag, _ := rp.vals[n.q[0]].intVal()
			want = fmt.Sprintf("GOVC-RESULT %d nil=%v", i, tag == 0)
		case "ptr":
			ref, _ := rp.vals[n.q[0]].intVal()
			want = fmt.Sprintf("GOVC-RESULT %d nil=%v", i, ref == 0)
		case "slice-len":
			b, _ := rp.vals[n.q[0]].intVal()
			want = fmt.Sprintf("GOVC-RESULT %d nil=%v", i, b == 0)
		case "bool":
			want = fmt.Sprintf("GOVC-RESULT %d val=%s", i, rp.vals[n.q[0]].atom)
		case "int":
			if txt, ok := rp.vals[n.q[0]].uintText(); ok {
				want = fmt.Sprintf("GOVC-RESULT %d val=%s", i, txt)
			} else if iv, ok := rp.vals[n.q[0]].intVal(); ok {
				want = fmt.Sprintf("GOVC-RESULT %d val=%d", i, iv)
			}
		}
		if want == "" {
			continue
		}
		compared++
		if !strings.Contains(outs, want+"\n") {
			match = false
			fmt.Fprintf(&log, "model predicts %q; the real code printed otherwise\n", want)
		} else {
			fmt.Fprintf(&log, "real code agrees with the model: %s\n", want)
		}
	}
	// Agreement on nil-ness / scalar results shows the real code takes the model's path, but the
	// failed clause may speak about abstract predicates (hashes, signatures, ghost state) that a
	// concrete run cannot evaluate: that is NOT counted as a failing input.
	rep.Reproduced = false
	if match && compared > 0 {
		log.WriteString("the real function returns the results the model predicts on these inputs; the clause itself involves state or abstract predicates a concrete run cannot evaluate, so no failing input is claimed\n")
	}
	rep.Log = log.String()
	return rep
}

var _ = ssa.NaiveForm

// concreteClauseCheck decides, for a function whose parameters and results are all integers or
// booleans, whether the failed clause is false on the concrete inputs of the model and the
// outputs the REAL function produced for them. The solver is used as an evaluator only: the
// parameters and results are pinned to their concrete values.
func concreteClauseCheck(o *Obligation, fx *FnExec, rp *replayPlan, nodes []*valueNode, outs string, log *strings.Builder) (reproduced, decided bool) {
	if o.Expr == nil || o.Kind != "ensures" {
		return false, false
	}
	fn := fx.fn
	scalar := func(t types.Type) bool {
		b, ok := t.Underlying().(*types.Basic)
		return ok && b.Info()&(types.IsInteger|types.IsBoolean) != 0
	}
	for _, p := range fn.Params {
		if !scalar(p.Type()) {
			return false, false
		}
	}
	rs := fn.Signature.Results()
	if rs.Len() == 0 {
		return false, false
	}
	for i := 0; i < rs.Len(); i++ {
		if !scalar(rs.At(i).Type()) {
			return false, false
		}
	}
	var pins []string
	var shown []string
	for i, p := range fn.Params {
		v := rp.vals[nodes[i].q[0]]
		txt := v.atom
		if v.isList() {
			iv, _ := v.intVal()
			txt = IntLit(iv).S
		}
		pins = append(pins, fmt.Sprintf("(assert (= %s %s))", fx.vals[p].S, txt))
		shown = append(shown, fmt.Sprintf("%s=%s", p.Name(), txt))
	}
	results := make([]Term, rs.Len())
	for i := 0; i < rs.Len(); i++ {
		marker := fmt.Sprintf("GOVC-RESULT %d val=", i)
		k := strings.Index(outs, marker)
		if k < 0 {
			return false, false
		}
		val := outs[k+len(marker):]
		val = strings.TrimSpace(val[:strings.IndexByte(val, '\n')])
		srt := fx.tc.SortOf(rs.At(i).Type())
		results[i] = Term{val, srt}
		if strings.HasPrefix(val, "-") {
			results[i] = Term{"(- " + val[1:] + ")", srt}
		}
		shown = append(shown, fmt.Sprintf("result%d=%s", i, val))
	}
	var phi Term
	func() {
		defer func() {
			if r := recover(); r != nil {
				decided = false
				phi = Term{}
			}
		}()
		env := fx.specEnv(fx.entry, fx.entry, nil, false)
		env.bindResults(fn.Signature, results)
		phi = env.EvalBool(o.Expr)
	}()
	if phi.S == "" {
		return false, false
	}
	saved := fx.sc.body
	fx.sc.body = append(append([]string(nil), fx.sc.body[:fx.entryPos]...), pins...)
	text := fx.sc.Render(len(fx.sc.body), phi, nil)
	fx.sc.body = saved
	f, _ := os.CreateTemp("", "govc-concrete-*.smt2")
	f.WriteString(text)
	f.Close()
	defer os.Remove(f.Name())
	ans, _, _ := runSolver(context.Background(), solvers[0], 20, f.Name())
	fmt.Fprintf(log, "concrete run of the real function: %s\n", strings.Join(shown, " "))
	switch ans {
	case "unsat":
		fmt.Fprintf(log, "REPRODUCED: the clause evaluates to false on these inputs and the outputs the real code returned\n")
		return true, true
	case "sat":
		fmt.Fprintf(log, "the clause holds on this concrete run (the model relied on an over-approximated callee); not reproduced\n")
		return false, true
	}
	return false, false
}
