package main

import (
	"golang.org/x/tools/go/ssa"
)

// deferIsEffectFree reports whether a deferred call cannot write any tracked state (its inferred
// write set is empty): metrics and timing calls.
func (fx *FnExec) deferIsEffectFree(d *ssa.Defer) bool {
	ms := NewModSet()
	func() {
		defer func() {
			if r := recover(); r != nil {
				ms.All = true
			}
		}()
		fx.g.eff.instrWrites(fx.tc, fx.fn, d, ms)
	}()
	return !ms.All && len(ms.Keys) == 0
}

// immutableGlobals: package-level variables of the loaded packages that are assigned only by the
// package initialiser (never stored to, and never have their address taken, in any other
// function). Their value is the same in every state, so calls with unknown effects do not
// forget it.
func (g *Gen) computeImmutableGlobals() {
	g.immutableGlobal = map[*ssa.Global]bool{}
	mutable := map[*ssa.Global]bool{}
	for _, fn := range g.funcs {
		isInit := fn.Name() == "init" || (fn.Synthetic != "" && fn.Name() == "init")
		for _, b := range fn.Blocks {
			for _, in := range b.Instrs {
				ops := in.Operands(nil)
				for _, op := range ops {
					gl, ok := (*op).(*ssa.Global)
					if !ok {
						continue
					}
					switch x := in.(type) {
					case *ssa.UnOp:
						continue // a load
					case *ssa.Store:
						if x.Addr == gl && isInit {
							continue
						}
						mutable[gl] = true
					case *ssa.FieldAddr, *ssa.IndexAddr:
						// interior address: conservatively mutable unless only loaded from
						mutable[gl] = true
					default:
						mutable[gl] = true
					}
				}
			}
		}
	}
	for _, sp := range g.spkgs {
		for _, m := range sp.Members {
			if gl, ok := m.(*ssa.Global); ok && !mutable[gl] {
				g.immutableGlobal[gl] = true
			}
		}
	}
}
