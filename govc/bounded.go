package main

import (
	"context"
	"encoding/json"
	"fmt"
	"os"
	"os/exec"
	"path/filepath"
	"regexp"
	"strconv"
	"strings"
	"time"
)

// Bounded stand-ins. Where no contract within the generator's reach can carry a part of a property,
// a bounded run of the REAL code stands in. Each runner is a Go test file under /verif/bounded that
// is injected into the package with `go test -overlay` (nothing is written into /repo). It states its
// bound, is labelled "bounded stand-in" in the evidence and is never counted among the discharged
// obligations.

type boundedSpec struct {
	File    string // test file under /verif/bounded
	PkgDir  string // package directory in the repository
	Test    string // test function
	Quick   map[string]string
	Thorough map[string]string
}

var boundedRunners = map[string]boundedSpec{
	"c08_history": {File: "c08_history_test.go", PkgDir: "store", Test: "TestVerifBoundedC08",
		Quick: map[string]string{"VERIF_BOUND_HISTORIES": "25"}, Thorough: map[string]string{"VERIF_BOUND_HISTORIES": "400"}},
	"c16_proofs": {File: "c16_proofs_test.go", PkgDir: "store", Test: "TestVerifBoundedC16",
		Quick: map[string]string{"VERIF_BOUND_TREES": "6"}, Thorough: map[string]string{"VERIF_BOUND_TREES": "60"}},
	"c16_history": {File: "c16_proofs_test.go", PkgDir: "store", Test: "TestVerifBoundedC16History",
		Quick: map[string]string{"VERIF_BOUND_HISTORIES": "12"}, Thorough: map[string]string{"VERIF_BOUND_HISTORIES": "300"}},
	"c13_committee": {File: "c13_committee_test.go", PkgDir: "fsm", Test: "TestVerifBoundedC13",
		Quick: map[string]string{"VERIF_BOUND_POPULATIONS": "40"}, Thorough: map[string]string{"VERIF_BOUND_POPULATIONS": "1500"}},
	"c05_batch": {File: "c05_batch_test.go", PkgDir: "lib/crypto", Test: "TestVerifBoundedC05",
		Quick: map[string]string{"VERIF_BOUND_BATCHES": "60"}, Thorough: map[string]string{"VERIF_BOUND_BATCHES": "1500"}},
	"c19_prefixrange": {File: "c19_prefixrange_test.go", PkgDir: "store", Test: "TestVerifBoundedC19Prefix",
		Quick: map[string]string{}, Thorough: map[string]string{}},
	"c05_cache": {File: "c05_batch_test.go", PkgDir: "lib/crypto", Test: "TestVerifBoundedC05Cache",
		Quick: map[string]string{}, Thorough: map[string]string{}},
	"c06_index": {File: "c06_index_test.go", PkgDir: "store", Test: "TestVerifBoundedC06Index",
		Quick: map[string]string{}, Thorough: map[string]string{}},
	"c07_clone": {File: "c07_clone_test.go", PkgDir: "fsm", Test: "TestVerifBoundedC07",
		Quick: map[string]string{"VERIF_BOUND_TRACKERS": "200"}, Thorough: map[string]string{"VERIF_BOUND_TRACKERS": "20000"}},
	"c10_history": {File: "c10_iter_test.go", PkgDir: "store", Test: "TestVerifBoundedC10History",
		Quick: map[string]string{"VERIF_BOUND_HISTORIES": "25"}, Thorough: map[string]string{"VERIF_BOUND_HISTORIES": "600"}},
	"c10_iter": {File: "c10_iter_test.go", PkgDir: "store", Test: "TestVerifBoundedC10",
		Quick: map[string]string{"VERIF_BOUND_SCENARIOS": "45"}, Thorough: map[string]string{"VERIF_BOUND_SCENARIOS": "1500"}},
	"c19_unknown_fields": {File: "c19_unknown_fields_test.go", PkgDir: "lib", Test: "TestVerifBoundedC19",
		Quick: map[string]string{}, Thorough: map[string]string{}},
}

var summaryRe = regexp.MustCompile(`BOUNDED-SUMMARY name=(\S+) evaluations=(\d+) distinct_nontrivial=(\d+) violations=(\d+) bound=(\S+)`)

// RunBounded runs a labelled bounded stand-in against the repository.
func RunBounded(g *Gen, vdir, name, tier string, seed int) BoundedResult {
	res := BoundedResult{Name: name}
	sp, ok := boundedRunners[name]
	if !ok {
		res.Violations = append(res.Violations, "unknown bounded runner "+name)
		return res
	}
	src, err := os.ReadFile(filepath.Join(vdir, "bounded", sp.File))
	if err != nil {
		res.Violations = append(res.Violations, err.Error())
		return res
	}
	work, _ := os.MkdirTemp("", "govc-bounded")
	defer os.RemoveAll(work)
	tf := filepath.Join(work, "zz_govc_bounded_test.go")
	os.WriteFile(tf, src, 0o644)
	pkgDir := filepath.Join(g.repo, sp.PkgDir)
	ov, _ := json.Marshal(map[string]any{"Replace": map[string]string{filepath.Join(pkgDir, "zz_govc_bounded_test.go"): tf}})
	ovf := filepath.Join(work, "overlay.json")
	os.WriteFile(ovf, ov, 0o644)
	timeout := 240 * time.Second
	if tier == "thorough" {
		timeout = 40 * time.Minute
	}
	ctx, cancel := context.WithTimeout(context.Background(), timeout)
	defer cancel()
	cmd := exec.CommandContext(ctx, "go", "test", "-overlay", ovf, "-vet=off", "-count=1", "-timeout", fmt.Sprintf("%ds", int(timeout.Seconds())-5), "-run", "^"+sp.Test+"$", "-v", ".")
	cmd.Dir = pkgDir
	env := []string{}
	for _, e := range os.Environ() {
		if strings.HasPrefix(e, "GOFLAGS=") || strings.HasPrefix(e, "GOTOOLCHAIN=") || strings.HasPrefix(e, "GOSUMDB=") || strings.HasPrefix(e, "PATH=") || strings.HasPrefix(e, "VERIF_SEED=") {
			continue
		}
		env = append(env, e)
	}
	path := strings.ReplaceAll(os.Getenv("PATH"), "/opt/veriftools/go1.26.8/bin:", "")
	env = append(env, "GOFLAGS=-mod=mod", "PATH="+path, "VERIF_SEED="+strconv.Itoa(seed))
	params := sp.Quick
	if tier == "thorough" {
		params = sp.Thorough
	}
	for k, v := range params {
		env = append(env, k+"="+v)
	}
	cmd.Env = env
	outb, runErr := cmd.CombinedOutput()
	out := string(outb)
	known, _ := loadKnownFindings(vdir)
	var violLines, histLines []string
	for _, l := range strings.Split(out, "\n") {
		switch {
		case strings.HasPrefix(l, "BOUNDED-VIOLATION"):
			violLines = append(violLines, l)
		case strings.HasPrefix(l, "BOUNDED-HISTORY"), strings.HasPrefix(l, "BOUNDED-WITNESS"):
			histLines = append(histLines, l)
		case strings.HasPrefix(l, "BOUNDED-SAMPLE"):
			if len(res.Samples) < 4 {
				res.Samples = append(res.Samples, strings.TrimPrefix(l, "BOUNDED-SAMPLE "))
			}
		}
		if m := summaryRe.FindStringSubmatch(l); m != nil {
			res.Evaluations, _ = strconv.Atoi(m[2])
			res.Distinct, _ = strconv.Atoi(m[3])
			res.Bound = m[5]
		}
	}
	if res.Evaluations == 0 {
		// the runner did not complete: that is a broken check, reported as such
		dir := filepath.Join(outDir(vdir), "replays", strings.ToUpper(name[:3]))
		os.MkdirAll(dir, 0o755)
		p := filepath.Join(dir, name+".run-failure.txt")
		os.WriteFile(p, []byte(fmt.Sprintf("bounded runner %s did not complete (%v)\n\n%s", name, runErr, firstLines(out, 60))), 0o644)
		res.Violations = append(res.Violations, p+" obligation=bounded."+name+" no-failing-input-found")
		return res
	}
	if len(res.Samples) == 0 {
		res.Samples = append(res.Samples, fmt.Sprintf("%s: %d evaluations within bound %s", name, res.Evaluations, res.Bound))
	}
	// violations: each gets a replay file with its witness; known findings are matched by their kind tag
	dir := filepath.Join(outDir(vdir), "replays", strings.ToUpper(name[:3]))
	for i, vl := range violLines {
		kind := "bounded." + name
		if j := strings.Index(vl, "kind="); j >= 0 {
			kind = "bounded." + name + "." + strings.Fields(vl[j+5:])[0]
		}
		pid := strings.ToUpper(name[:3])
		if kf := matchKnown(known, pid, kind); kf != nil {
			entry := kf.What + " [" + kind + "]"
			dup := false
			for _, k := range res.Known {
				if k == entry {
					dup = true
				}
			}
			if !dup {
				res.Known = append(res.Known, entry)
			}
			res.KnownIDs = append(res.KnownIDs, kf.Obligation)
			continue
		}
		os.MkdirAll(dir, 0o755)
		p := filepath.Join(dir, fmt.Sprintf("%s.violation%d.txt", name, i+1))
		var sb strings.Builder
		fmt.Fprintf(&sb, "bounded stand-in: %s\nbound: %s\nre-run: (cd %s && VERIF_SEED=%d go test -overlay <ov> -run ^%s$ .) with /verif/bounded/%s injected as a test file\n\n%s\n\n", name, res.Bound, pkgDir, seed, sp.Test, sp.File, vl)
		for _, h := range histLines {
			sb.WriteString(h + "\n")
		}
		os.WriteFile(p, []byte(sb.String()), 0o644)
		res.Violations = append(res.Violations, p+" obligation="+kind)
	}
	res.Exhaustive = strings.Contains(res.Bound, "exhaustive")
	return res
}
