package main

// RunBounded runs a labelled bounded stand-in (filled in later).
func RunBounded(g *Gen, vdir, name, tier string, seed int) BoundedResult {
	return BoundedResult{Name: name}
}
