package main

import (
	"fmt"
	"math/big"
	"sort"
	"strings"
	"sync"
)

// structDecls: datatype declarations of all struct sorts named so far, emitted on demand by Render.
var (
	structDecls  = map[string]string{}
	structDeclMu sync.Mutex
)

// builtinPreLines is the number of fixed preamble lines NewScript emits.
const builtinPreLines = 8

// bseqSortDecl: the sort of abstract byte strings; heap keys of ghost maps may mention it before any
// byte-string operation declares it, so Render hoists it.
const bseqSortDecl = "(declare-sort BSeq 0)"

// Term is an SMT-LIB2 term with its sort (both as text).
type Term struct {
	S    string
	Sort string
}

const (
	SInt   = "Int"
	SBool  = "Bool"
	SSlice = "Slice"
	SIface = "Iface"
	SReal  = "Real"
)

var (
	TTrue  = Term{"true", SBool}
	TFalse = Term{"false", SBool}
	TZero  = Term{"0", SInt}
)

func (t Term) String() string { return t.S }

func IntLit(n int64) Term {
	if n < 0 {
		return Term{fmt.Sprintf("(- %d)", -n), SInt}
	}
	return Term{fmt.Sprintf("%d", n), SInt}
}

func BigLit(n *big.Int) Term {
	if n.Sign() < 0 {
		return Term{"(- " + new(big.Int).Neg(n).String() + ")", SInt}
	}
	return Term{n.String(), SInt}
}

func BoolLit(b bool) Term {
	if b {
		return TTrue
	}
	return TFalse
}

func App(op, sort string, args ...Term) Term {
	var sb strings.Builder
	sb.WriteByte('(')
	sb.WriteString(op)
	for _, a := range args {
		sb.WriteByte(' ')
		sb.WriteString(a.S)
	}
	sb.WriteByte(')')
	return Term{sb.String(), sort}
}

func And(ts ...Term) Term {
	var out []Term
	for _, t := range ts {
		if t.S == "true" {
			continue
		}
		if t.S == "false" {
			return TFalse
		}
		out = append(out, t)
	}
	switch len(out) {
	case 0:
		return TTrue
	case 1:
		return out[0]
	}
	return App("and", SBool, out...)
}

func Or(ts ...Term) Term {
	var out []Term
	for _, t := range ts {
		if t.S == "false" {
			continue
		}
		if t.S == "true" {
			return TTrue
		}
		out = append(out, t)
	}
	switch len(out) {
	case 0:
		return TFalse
	case 1:
		return out[0]
	}
	return App("or", SBool, out...)
}

func Not(t Term) Term {
	switch t.S {
	case "true":
		return TFalse
	case "false":
		return TTrue
	}
	if strings.HasPrefix(t.S, "(not ") {
		return Term{t.S[5 : len(t.S)-1], SBool}
	}
	return App("not", SBool, t)
}

func Implies(a, b Term) Term {
	if a.S == "true" {
		return b
	}
	if a.S == "false" || b.S == "true" {
		return TTrue
	}
	return App("=>", SBool, a, b)
}

func Eq(a, b Term) Term {
	if a.S == b.S {
		return TTrue
	}
	return App("=", SBool, a, b)
}

func Ite(c, a, b Term) Term {
	if c.S == "true" {
		return a
	}
	if c.S == "false" {
		return b
	}
	if a.S == b.S {
		return a
	}
	return App("ite", a.Sort, c, a, b)
}

func Select(arr, idx Term) Term {
	return App("select", arrayElemSort(arr.Sort), arr, idx)
}

func Store(arr, idx, v Term) Term {
	return App("store", arr.Sort, arr, idx, v)
}

// arrayElemSort returns X for "(Array K X)".
func arrayElemSort(s string) string {
	if !strings.HasPrefix(s, "(Array ") {
		panic("not an array sort: " + s)
	}
	inner := s[len("(Array ") : len(s)-1]
	// skip the key sort
	depth := 0
	for i := 0; i < len(inner); i++ {
		switch inner[i] {
		case '(':
			depth++
		case ')':
			depth--
		case ' ':
			if depth == 0 {
				return inner[i+1:]
			}
		}
	}
	panic("bad array sort: " + s)
}

func arrayKeySort(s string) string {
	inner := s[len("(Array ") : len(s)-1]
	depth := 0
	for i := 0; i < len(inner); i++ {
		switch inner[i] {
		case '(':
			depth++
		case ')':
			depth--
		case ' ':
			if depth == 0 {
				return inner[:i]
			}
		}
	}
	panic("bad array sort: " + s)
}

func ArraySort(k, v string) string { return "(Array " + k + " " + v + ")" }

// sanitize makes a string usable as an SMT-LIB simple symbol.
func sanitize(s string) string {
	var sb strings.Builder
	for _, r := range s {
		switch {
		case r >= 'a' && r <= 'z', r >= 'A' && r <= 'Z', r >= '0' && r <= '9', r == '_', r == '.', r == '$':
			sb.WriteRune(r)
		case r == '*':
			sb.WriteString("P_")
		case r == '/':
			sb.WriteByte('.')
		case r == '[':
			sb.WriteString("L_")
		case r == ']':
			sb.WriteString("_J")
		default:
			sb.WriteByte('_')
		}
	}
	return sb.String()
}

// Script accumulates a per-function SMT script: a preamble of sort/function declarations and an
// ordered body of definitions and assumptions. Obligations snapshot a prefix of the body.
type Script struct {
	pre     []string
	preSeen map[string]bool
	body    []string
	nfresh  int
}

func NewScript() *Script {
	s := &Script{preSeen: map[string]bool{}}
	s.pre = append(s.pre,
		"(declare-datatypes ((Slice 0)) (((mk-slice (sl.base Int) (sl.off Int) (sl.len Int) (sl.cap Int)))))",
		"(declare-datatypes ((Iface 0)) (((mk-iface (if.tag Int) (if.val Int)))))",
		"(define-fun wrapU ((x Int) (m Int)) Int (ite (and (<= 0 x) (< x m)) x (mod x m)))",
		"(define-fun wrapS ((x Int) (h Int)) Int (ite (and (<= (- h) x) (< x h)) x (- (mod (+ x h) (* 2 h)) h)))",
		"(define-fun tdiv ((a Int) (b Int)) Int (ite (>= a 0) (ite (> b 0) (div a b) (- (div a (- b)))) (ite (> b 0) (- (div (- a) b)) (div (- a) (- b)))))",
		"(define-fun tmod ((a Int) (b Int)) Int (- a (* b (tdiv a b))))",
		"(define-fun imin ((a Int) (b Int)) Int (ite (<= a b) a b))",
		"(define-fun imax ((a Int) (b Int)) Int (ite (>= a b) a b))",
	)
	return s
}

// Declare adds a preamble line once (keyed by key).
func (s *Script) Declare(key, line string) {
	if s == nil {
		return
	}
	if s.preSeen[key] {
		return
	}
	s.preSeen[key] = true
	s.pre = append(s.pre, line)
}

func (s *Script) Emit(line string) { s.body = append(s.body, line) }

func (s *Script) Pos() int { return len(s.body) }

// Truncate drops the body lines emitted after position pos (declarations made meanwhile stay declared).
func (s *Script) Truncate(pos int) {
	if pos >= 0 && pos <= len(s.body) {
		s.body = s.body[:pos]
	}
}

// Fresh declares a fresh constant of the given sort.
func (s *Script) Fresh(hint, sort string) Term {
	s.nfresh++
	name := fmt.Sprintf("%s!%d", sanitize(hint), s.nfresh)
	s.Emit(fmt.Sprintf("(declare-fun %s () %s)", name, sort))
	return Term{name, sort}
}

// Define names a term (define-fun) and returns the name as a term. Literals and plain symbols
// are returned unchanged.
func (s *Script) Define(hint string, t Term) Term {
	if !strings.HasPrefix(t.S, "(") || len(t.S) < 24 {
		return t
	}
	s.nfresh++
	name := fmt.Sprintf("%s!%d", sanitize(hint), s.nfresh)
	s.Emit(fmt.Sprintf("(define-fun %s () %s %s)", name, t.Sort, t.S))
	return Term{name, t.Sort}
}

func (s *Script) Assume(t Term) {
	if t.S == "true" {
		return
	}
	s.Emit("(assert " + t.S + ")")
}

// Render produces the full text for a query: preamble, body prefix, the goal and check-sat.
func (s *Script) Render(prefix int, goal Term, getValues []string) string {
	var sb strings.Builder
	sb.WriteString("(set-option :produce-models true)\n(set-logic ALL)\n")
	var rest strings.Builder
	for i, l := range s.pre {
		if i < builtinPreLines {
			sb.WriteString(l)
			sb.WriteByte('\n')
			continue
		}
		if l == bseqSortDecl {
			continue // emitted once, ahead of everything that may mention the sort
		}
		rest.WriteString(l)
		rest.WriteByte('\n')
	}
	for _, l := range s.body[:prefix] {
		rest.WriteString(l)
		rest.WriteByte('\n')
	}
	// struct sorts mentioned anywhere, in dependency order
	text := rest.String() + goal.S
	if strings.Contains(text, "BSeq") {
		sb.WriteString(bseqSortDecl + "\n")
	}
	structDeclMu.Lock()
	names := make([]string, 0, len(structDecls))
	for n := range structDecls {
		names = append(names, n)
	}
	sort.Strings(names)
	emitted := map[string]bool{}
	var emit func(n string)
	emit = func(n string) {
		if emitted[n] {
			return
		}
		emitted[n] = true
		decl := structDecls[n]
		for _, m := range names {
			if m != n && strings.Contains(decl, m) {
				emit(m)
			}
		}
		sb.WriteString(decl)
		sb.WriteByte('\n')
	}
	for _, n := range names {
		if strings.Contains(text, n) {
			emit(n)
		}
	}
	structDeclMu.Unlock()
	sb.WriteString(rest.String())
	sb.WriteString("(assert " + goal.S + ")\n(check-sat)\n")
	if len(getValues) > 0 {
		sb.WriteString("(get-value (" + strings.Join(getValues, " ") + "))\n")
	}
	return sb.String()
}

// RenderForValues is Render for model extraction: the body prefix of the obligation, plus the
// symbol declarations (not the assumptions) made later, so that value queries may mention them.
func (s *Script) RenderForValues(prefix int, goal Term, getValues []string) string {
	saved := s.body
	nb := append([]string(nil), s.body[:prefix]...)
	for _, l := range s.body[prefix:] {
		if strings.HasPrefix(l, "(declare-fun ") {
			nb = append(nb, l)
		}
	}
	s.body = nb
	out := s.Render(len(nb), goal, getValues)
	s.body = saved
	return out
}

func pow2(k uint) *big.Int { return new(big.Int).Lsh(big.NewInt(1), k) }
