package main

import (
	"fmt"
	"go/types"
	"strings"
)

// Object frames: a contract that says `modifies obj(p)` promises that, of all objects of p's
// struct type, only the one p points to (and objects allocated during the call) is written.
// The field-level part of that promise is checked by the #modifies obligation (inferred write
// set within the declared one); the object-level part is checked here, at every store into a
// field of that struct type inside the function body.

type objFrame struct {
	keys    map[string]bool
	allowed []Term
}

func (fx *FnExec) setupObjFrame() {
	fx.objFrame = nil
	if fx.contract == nil || fx.contract.Modifies == nil {
		return
	}
	of := &objFrame{keys: map[string]bool{}}
	for _, it := range fx.contract.Modifies.Items {
		if !strings.HasPrefix(it, "obj(") || !strings.HasSuffix(it, ")") {
			continue
		}
		name := it[4 : len(it)-1]
		pv, ok := fx.params[name]
		if !ok {
			continue
		}
		pt, isPtr := pv.Ty.Underlying().(*types.Pointer)
		if !isPtr || !isStruct(pt.Elem()) {
			continue
		}
		si := fx.tc.StructOf(pt.Elem())
		for _, f := range si.Fields {
			of.keys[fx.tc.FieldKey(si, f)] = true
		}
		of.allowed = append(of.allowed, pv.T)
	}
	if len(of.allowed) > 0 {
		fx.objFrame = of
	}
}

// checkObjFrame asserts that a store into a framed struct type hits an allowed object.
func (fx *FnExec) checkObjFrame(st *State, p *Ptr) {
	of := fx.objFrame
	if of == nil || p.Kind != PHeap || !isStruct(p.ObjT) {
		return
	}
	si := fx.tc.StructOf(p.ObjT)
	hit := false
	if len(p.Path) > 0 && p.Path[0].Field != nil {
		hit = of.keys[fx.tc.FieldKey(si, p.Path[0].Field)]
	} else {
		for _, f := range si.Fields {
			if of.keys[fx.tc.FieldKey(si, f)] {
				hit = true
			}
		}
	}
	if !hit {
		return
	}
	var alts []Term
	for _, a := range of.allowed {
		alts = append(alts, Eq(p.Ref, a))
	}
	alts = append(alts, App(">=", SBool, p.Ref, fx.entry.nextRef)) // allocated by this call
	fx.Assert(st, fmt.Sprintf("modifies.obj.%d", fx.ordinal("objframe")), "modifies", "store stays within the objects named by `modifies obj(...)`", Or(alts...))
}
