package main

import (
	"os"
	"regexp"
	"fmt"
	"go/constant"
	"go/token"
	"go/types"
	"math/big"
	"sort"
	"strings"

	"golang.org/x/tools/go/ssa"
)

// SpecVal is the value of a spec expression: a term plus (when it denotes a Go value) its Go type.
type SpecVal struct {
	T   Term
	Ty  types.Type // nil for mathematical integers / booleans / abstract sorts
	Dyn types.Type // for interface values whose dynamic type is statically known
}

// reachKeys lists the heap arrays holding memory reachable from a value of type t (through
// pointers, slices, maps and struct fields). ok is false when an interface makes the set unknown.
func (fx *FnExec) reachKeys(t types.Type) ([]string, bool) {
	seen := map[string]bool{}
	keys := map[string]bool{}
	ok := true
	var walk func(t types.Type, deref bool)
	walk = func(t types.Type, deref bool) {
		switch u := t.Underlying().(type) {
		case *types.Pointer:
			et := u.Elem()
			if isStruct(et) {
				id := "p:" + types.TypeString(et, nil)
				if seen[id] {
					return
				}
				seen[id] = true
				si := fx.tc.StructOf(et)
				for _, f := range si.Fields {
					keys[fx.tc.FieldKey(si, f)] = true
					walk(f.Type, false)
				}
				return
			}
			keys[fx.tc.BoxKey(et)] = true
			walk(et, false)
		case *types.Struct:
			si := fx.tc.StructOf(t)
			for _, f := range si.Fields {
				walk(f.Type, false)
			}
		case *types.Slice:
			id := "s:" + types.TypeString(u.Elem(), nil)
			if seen[id] {
				return
			}
			seen[id] = true
			keys[fx.tc.ElemKey(u.Elem())] = true
			walk(u.Elem(), false)
		case *types.Array:
			walk(u.Elem(), false)
		case *types.Map:
			d, v := fx.tc.MapKeys(u)
			keys[d], keys[v] = true, true
			walk(u.Key(), false)
			walk(u.Elem(), false)
		case *types.Interface:
			ok = false
		}
	}
	walk(t, true)
	out := make([]string, 0, len(keys))
	for k := range keys {
		out = append(out, k)
	}
	sort.Strings(out)
	return out, ok
}

type SpecError struct{ Msg string }

func (e SpecError) Error() string { return "spec: " + e.Msg }

func specFail(f string, a ...any) { panic(SpecError{fmt.Sprintf(f, a...)}) }

// SpecEnv evaluates spec expressions against a symbolic state.
type SpecEnv struct {
	fx     *FnExec
	st     *State // current state
	old    *State // state denoted by old(...)
	vars   map[string]SpecVal
	pkg    *types.Package // for resolving type and constant names
	loop   *loopInfo
	locals bool // identifiers may name local variables (current cell contents)
	inOld  bool
	head   *State // iterensures: the state at the loop head of the iteration that just ran (for athead(e))
	pos    token.Pos // source position used to resolve local names when not at a loop
	// recursive spec function definition in progress
	recName string
	recKeys *[]string
}

// specEnv builds the environment for evaluating a clause of fx's own contract.
func (fx *FnExec) specEnv(st, old *State, li *loopInfo, locals bool) *SpecEnv {
	env := &SpecEnv{fx: fx, st: st, old: old, vars: map[string]SpecVal{}, loop: li, locals: locals}
	if fx.fn.Pkg != nil {
		env.pkg = fx.fn.Pkg.Pkg
	} else if fx.fn.Parent() != nil && fx.fn.Parent().Pkg != nil {
		env.pkg = fx.fn.Parent().Pkg.Pkg
	}
	for n, v := range fx.params {
		env.vars[n] = v
	}
	return env
}

func (env *SpecEnv) bindResults(sig *types.Signature, results []Term) {
	rs := sig.Results()
	for i := 0; i < rs.Len() && i < len(results); i++ {
		v := SpecVal{T: results[i], Ty: rs.At(i).Type()}
		env.vars[fmt.Sprintf("result%d", i)] = v
		if rs.Len() == 1 {
			env.vars["result"] = v
		}
		if n := rs.At(i).Name(); n != "" && n != "_" {
			env.vars[n] = v
		}
	}
}

func (env *SpecEnv) EvalBool(e SpecExpr) Term {
	v := env.Eval(e)
	if v.T.Sort != SBool {
		specFail("expected a boolean, got sort %s", v.T.Sort)
	}
	return v.T
}

func (env *SpecEnv) state() *State {
	if env.inOld {
		return env.old
	}
	return env.st
}

func (env *SpecEnv) Eval(e SpecExpr) SpecVal {
	fx := env.fx
	switch x := e.(type) {
	case SIntLit:
		return SpecVal{T: BigLit(x.V)}
	case SBoolLit:
		return SpecVal{T: BoolLit(x.V)}
	case SStr:
		return SpecVal{T: fx.tc.StrConst(x.V), Ty: types.Typ[types.String]}
	case SNil:
		return SpecVal{T: TZero, Ty: types.Typ[types.UntypedNil]}
	case SIdent:
		return env.ident(x.Name)
	case SOld:
		if env.old == nil {
			specFail("old() is not available here")
		}
		saved := env.inOld
		env.inOld = true
		v := env.Eval(x.X)
		env.inOld = saved
		return v
	case SLet:
		v := env.Eval(x.Val)
		saved, had := env.vars[x.Name]
		env.vars[x.Name] = v
		r := env.Eval(x.Body)
		if had {
			env.vars[x.Name] = saved
		} else {
			delete(env.vars, x.Name)
		}
		return r
	case SUnary:
		switch x.Op {
		case "!":
			return SpecVal{T: Not(env.EvalBool(x.X))}
		case "-":
			return SpecVal{T: App("-", SInt, env.Eval(x.X).T)}
		case "&":
			// address of a field of a pointed-to struct: &p.f (possibly through nested struct fields)
			sel, ok := x.X.(SSel)
			if !ok {
				specFail("& is supported on field selectors only")
			}
			var names []string
			cur := SpecExpr(sel)
			var baseV SpecVal
			for {
				s, isSel := cur.(SSel)
				if !isSel {
					specFail("&: no pointer base found")
				}
				names = append([]string{s.Name}, names...)
				b := env.Eval(s.X)
				if _, isPtr := derefType(b.Ty); isPtr {
					baseV = b
					break
				}
				cur = s.X
			}
			pt, _ := derefType(baseV.Ty)
			p := &Ptr{Kind: PHeap, Ref: baseV.T, ObjT: pt, T: pt}
			ct := pt
			for _, n := range names {
				f, idx := lookupFieldAnyPkg(ct, n)
				if f == nil {
					specFail("&: no field %s in %v", n, ct)
				}
				for _, i := range idx {
					si := fx.tc.StructOf(ct)
					fi := si.byIdx[i]
					if fi == nil {
						specFail("&: field %s of %v is not modelled", n, ct)
					}
					p = p.extend(Sel{SI: si, Field: fi}, fi.Type)
					ct = fi.Type
				}
			}
			return SpecVal{T: fx.PtrTerm(p), Ty: types.NewPointer(ct)}
		case "*":
			v := env.Eval(x.X)
			pt, ok := derefType(v.Ty)
			if !ok {
				specFail("cannot dereference a value of type %v", v.Ty)
			}
			p := &Ptr{Kind: PHeap, Ref: v.T, ObjT: pt, T: pt}
			return SpecVal{T: env.load(p), Ty: pt}
		}
	case SCond:
		c := env.EvalBool(x.C)
		a, b := env.Eval(x.A), env.Eval(x.B)
		a, b = env.unifyNil(a, b)
		return SpecVal{T: Ite(c, a.T, b.T), Ty: a.Ty}
	case SBinary:
		return env.binary(x)
	case SSel:
		return env.sel(x)
	case SIndex:
		return env.index(x)
	case SSliceE:
		v := env.Eval(x.X)
		if v.Ty == nil {
			specFail("slice expression on a non-Go value")
		}
		if pt, ok := v.Ty.Underlying().(*types.Pointer); ok {
			// slice of a pointer to an array: the array object's elements
			if at, ok := pt.Elem().Underlying().(*types.Array); ok {
				lo := TZero
				if x.Lo != nil {
					lo = env.Eval(x.Lo).T
				}
				hi := IntLit(at.Len())
				if x.Hi != nil {
					hi = env.Eval(x.Hi).T
				}
				return SpecVal{T: App("mk-slice", SSlice, v.T, lo, App("-", SInt, hi, lo), App("-", SInt, IntLit(at.Len()), lo)), Ty: types.NewSlice(at.Elem())}
			}
		}
		if _, ok := v.Ty.Underlying().(*types.Slice); !ok {
			specFail("slice expression on %v", v.Ty)
		}
		lo := TZero
		if x.Lo != nil {
			lo = env.Eval(x.Lo).T
		}
		hi := App("sl.len", SInt, v.T)
		if x.Hi != nil {
			hi = env.Eval(x.Hi).T
		}
		return SpecVal{T: App("mk-slice", SSlice, App("sl.base", SInt, v.T), App("+", SInt, App("sl.off", SInt, v.T), lo),
			App("-", SInt, hi, lo), App("-", SInt, App("sl.cap", SInt, v.T), lo)), Ty: v.Ty}
	case SCall:
		return env.call(x)
	case SQuant:
		saved := map[string]*SpecVal{}
		var binders []string
		var guards []Term
		for _, v := range x.Vars {
			ty, sort := env.resolveType(v.Type)
			name := "q$" + sanitize(v.Name)
			if old, ok := env.vars[v.Name]; ok {
				o := old
				saved[v.Name] = &o
			} else {
				saved[v.Name] = nil
			}
			t := Term{name, sort}
			env.vars[v.Name] = SpecVal{T: t, Ty: ty}
			binders = append(binders, fmt.Sprintf("(%s %s)", name, sort))
			if ty != nil {
				guards = append(guards, fx.tc.WellTyped(t, ty, 1))
			}
		}
		nq := len(fx.qbind)
		fx.qbind = append(fx.qbind, binders...)
		fx.qguard = append(fx.qguard, guards...)
		body := env.EvalBool(x.Body)
		fx.qbind, fx.qguard = fx.qbind[:nq:nq], fx.qguard[:len(fx.qguard)-len(guards):len(fx.qguard)-len(guards)]
		for n, o := range saved {
			if o == nil {
				delete(env.vars, n)
			} else {
				env.vars[n] = *o
			}
		}
		g := And(guards...)
		if x.Forall {
			return SpecVal{T: Term{fmt.Sprintf("(forall (%s) %s)", strings.Join(binders, " "), Implies(g, body).S), SBool}}
		}
		return SpecVal{T: Term{fmt.Sprintf("(exists (%s) %s)", strings.Join(binders, " "), And(g, body).S), SBool}}
	}
	specFail("cannot evaluate %#v", e)
	return SpecVal{}
}

func derefType(t types.Type) (types.Type, bool) {
	if t == nil {
		return nil, false
	}
	if p, ok := t.Underlying().(*types.Pointer); ok {
		return p.Elem(), true
	}
	return nil, false
}

func (env *SpecEnv) load(p *Ptr) Term {
	fx := env.fx
	// loads inside specs never generate run-time checks
	savedNP := fx.nopanic
	fx.nopanic = false
	savedNN := fx.nonNil[p.Ref.S]
	fx.nonNil[p.Ref.S] = true
	defer func() {
		fx.nopanic = savedNP
		if !savedNN {
			delete(fx.nonNil, p.Ref.S)
		}
	}()
	v := fx.Load(env.state(), p)
	// no dangling references: anything a heap cell holds was allocated before the state it is read in
	// (so it cannot alias an object allocated later); not stated for terms under a binder
	if st := env.state(); st != nil && st.nextRef.S != "" && st.nextRef.S != TZero.S && !strings.Contains(v.S, "q$") && !strings.Contains(p.Ref.S, "q$") {
		fx.sc.Assume(fx.heapClosed(st, v, p.T, 1))
		fx.sc.Assume(fx.tc.WellTyped(v, p.T, 1)) // and it is a value of its Go type (ranges, slice header sanity)
	} else if st != nil && st.nextRef.S != "" && st.nextRef.S != TZero.S && len(fx.qbind) > 0 && os.Getenv("GOVC_NO_QFACTS") == "" {
		// under a binder the same two facts are stated for every value of the bound variables
		for _, fact := range []Term{fx.heapClosed(st, v, p.T, 1), fx.tc.WellTyped(v, p.T, 1)} {
			if fact.S == "true" || !boundIn(fact.S, fx.qbind) {
				continue
			}
			fx.sc.Assume(Term{fmt.Sprintf("(forall (%s) %s)", strings.Join(fx.qbind, " "), Implies(And(fx.qguard...), fact).S), SBool})
		}
	}
	return v
}

func (env *SpecEnv) unifyNil(a, b SpecVal) (SpecVal, SpecVal) {
	isNil := func(v SpecVal) bool {
		if v.Ty == nil {
			return false
		}
		bt, ok := v.Ty.(*types.Basic)
		return ok && bt.Kind() == types.UntypedNil
	}
	if isNil(a) && !isNil(b) && b.Ty != nil {
		a = SpecVal{T: env.fx.tc.Zero(b.Ty), Ty: b.Ty}
	}
	if isNil(b) && !isNil(a) && a.Ty != nil {
		b = SpecVal{T: env.fx.tc.Zero(a.Ty), Ty: a.Ty}
	}
	return a, b
}

func (env *SpecEnv) binary(x SBinary) SpecVal {
	switch x.Op {
	case "&&":
		return SpecVal{T: And(env.EvalBool(x.X), env.EvalBool(x.Y))}
	case "||":
		return SpecVal{T: Or(env.EvalBool(x.X), env.EvalBool(x.Y))}
	case "==>":
		return SpecVal{T: Implies(env.EvalBool(x.X), env.EvalBool(x.Y))}
	case "<==>":
		return SpecVal{T: Eq(env.EvalBool(x.X), env.EvalBool(x.Y))}
	}
	a, b := env.Eval(x.X), env.Eval(x.Y)
	switch x.Op {
	case "==", "!=":
		var e Term
		_, aNil := x.X.(SNil)
		_, bNil := x.Y.(SNil)
		switch {
		case bNil && a.Ty != nil && isSlice(a.Ty):
			e = Eq(App("sl.base", SInt, a.T), TZero)
		case aNil && b.Ty != nil && isSlice(b.Ty):
			e = Eq(App("sl.base", SInt, b.T), TZero)
		default:
			a, b = env.unifyNil(a, b)
			if a.T.Sort != b.T.Sort {
				// interface vs concrete
				if a.T.Sort == SIface && b.Ty != nil {
					b.T = env.fx.makeIface(b.T, b.Ty)
				} else if b.T.Sort == SIface && a.Ty != nil {
					a.T = env.fx.makeIface(a.T, a.Ty)
				} else {
					specFail("comparison of sorts %s and %s", a.T.Sort, b.T.Sort)
				}
			}
			e = Eq(a.T, b.T)
			if a.T.Sort == "BSeq" && !strings.Contains(a.T.S, "q$") && !strings.Contains(b.T.S, "q$") && a.T.S != b.T.S {
				env.fx.bseqExtensional(a.T, b.T)
			}
		}
		if x.Op == "!=" {
			e = Not(e)
		}
		return SpecVal{T: e}
	case "<", "<=", ">", ">=":
		return SpecVal{T: App(x.Op, SBool, a.T, b.T)}
	case "+", "-", "*":
		return SpecVal{T: App(x.Op, SInt, a.T, b.T)}
	case "/":
		return SpecVal{T: App("tdiv", SInt, a.T, b.T)}
	case "%":
		return SpecVal{T: App("tmod", SInt, a.T, b.T)}
	}
	specFail("unknown operator %s", x.Op)
	return SpecVal{}
}

func isSlice(t types.Type) bool {
	_, ok := t.Underlying().(*types.Slice)
	return ok
}

func (env *SpecEnv) sel(x SSel) SpecVal {
	fx := env.fx
	// package-qualified constant or variable
	if id, ok := x.X.(SIdent); ok {
		// callee.<param>: the argument bound to that parameter at a call site (callsite clauses)
		if id.Name == "callee" {
			if v, ok := env.vars["callee."+x.Name]; ok {
				return v
			}
			specFail("callee.%s: no such parameter at this call site", x.Name)
		}
		if _, isVar := env.vars[id.Name]; !isVar {
			if p := env.importedPkg(id.Name); p != nil {
				return env.pkgMember(p, x.Name)
			}
		}
	}
	v := env.Eval(x.X)
	if v.Ty == nil {
		specFail("field %s of a non-Go value", x.Name)
	}
	t := v.Ty
	if pt, ok := derefType(t); ok {
		// field of a pointed-to struct: read the heap
		obj, idx, _ := types.LookupFieldOrMethod(pt, true, env.pkg, x.Name)
		f, isVar := obj.(*types.Var)
		if !isVar {
			// allow exported fields of other packages regardless of env.pkg
			f, idx = lookupFieldAnyPkg(pt, x.Name)
			if f == nil {
				specFail("no field %s in %v", x.Name, pt)
			}
		}
		p := &Ptr{Kind: PHeap, Ref: v.T, ObjT: pt, T: pt}
		cur := pt
		for _, i := range idx {
			if ptr, ok := cur.Underlying().(*types.Pointer); ok {
				// embedded pointer: load it and continue from there
				ref := env.load(p)
				p = &Ptr{Kind: PHeap, Ref: ref, ObjT: ptr.Elem(), T: ptr.Elem()}
				cur = ptr.Elem()
			}
			si := fx.tc.StructOf(cur)
			fi := si.byIdx[i]
			if fi == nil {
				specFail("field %s of %v is not modelled", x.Name, cur)
			}
			p = p.extend(Sel{SI: si, Field: fi}, fi.Type)
			cur = fi.Type
		}
		return SpecVal{T: env.load(p), Ty: cur}
	}
	if isStruct(t) {
		f, idx := lookupFieldAnyPkg(t, x.Name)
		if f == nil {
			specFail("no field %s in %v", x.Name, t)
		}
		cur := t
		val := v.T
		for _, i := range idx {
			if ptr, ok := cur.Underlying().(*types.Pointer); ok {
				p := &Ptr{Kind: PHeap, Ref: val, ObjT: ptr.Elem(), T: ptr.Elem()}
				si := fx.tc.StructOf(ptr.Elem())
				fi := si.byIdx[i]
				if fi == nil {
					specFail("field %s is not modelled", x.Name)
				}
				val = env.load(p.extend(Sel{SI: si, Field: fi}, fi.Type))
				cur = fi.Type
				continue
			}
			si := fx.tc.StructOf(cur)
			fi := si.byIdx[i]
			if fi == nil {
				specFail("field %s of %v is not modelled", x.Name, cur)
			}
			val = si.Get(val, fi)
			cur = fi.Type
		}
		return SpecVal{T: val, Ty: cur}
	}
	specFail("selector .%s on %v", x.Name, t)
	return SpecVal{}
}

func lookupFieldAnyPkg(t types.Type, name string) (*types.Var, []int) {
	var pkg *types.Package
	if n, ok := types.Unalias(t).(*types.Named); ok && n.Obj() != nil {
		pkg = n.Obj().Pkg()
	}
	obj, idx, _ := types.LookupFieldOrMethod(t, true, pkg, name)
	if f, ok := obj.(*types.Var); ok {
		return f, idx
	}
	return nil, nil
}

func (env *SpecEnv) index(x SIndex) SpecVal {
	fx := env.fx
	v := env.Eval(x.X)
	i := env.Eval(x.I)
	if v.Ty == nil {
		if strings.HasPrefix(v.T.Sort, "(Array ") {
			return SpecVal{T: Select(v.T, i.T)}
		}
		specFail("index on a non-Go value")
	}
	switch u := v.Ty.Underlying().(type) {
	case *types.Slice:
		p := &Ptr{Kind: PElem, Ref: App("sl.base", SInt, v.T), Idx: App("+", SInt, App("sl.off", SInt, v.T), i.T), ObjT: u.Elem(), T: u.Elem()}
		return SpecVal{T: env.load(p), Ty: u.Elem()}
	case *types.Array:
		return SpecVal{T: Select(v.T, i.T), Ty: u.Elem()}
	case *types.Map:
		_, vk := fx.tc.MapKeys(u)
		return SpecVal{T: Select(Select(fx.Heap(env.state(), vk), v.T), i.T), Ty: u.Elem()}
	case *types.Basic:
		fx.sc.Declare("uf:strat", "(declare-fun strat (Int Int) Int)")
		return SpecVal{T: App("strat", SInt, v.T, i.T)}
	}
	specFail("index on %v", v.Ty)
	return SpecVal{}
}

func (env *SpecEnv) importedPkg(name string) *types.Package {
	if env.pkg != nil && env.pkg.Name() == name {
		return env.pkg
	}
	// canopy packages take precedence over same-named standard packages (lib/crypto vs crypto)
	for _, p := range env.fx.g.prog.AllPackages() {
		if p.Pkg.Name() == name && strings.Contains(p.Pkg.Path(), "canopy") {
			return p.Pkg
		}
	}
	if env.pkg != nil {
		for _, p := range env.pkg.Imports() {
			if p.Name() == name {
				return p
			}
		}
	}
	switch name {
	case "math":
		for _, p := range env.fx.g.prog.AllPackages() {
			if p.Pkg.Path() == "math" {
				return p.Pkg
			}
		}
	}
	return nil
}

func (env *SpecEnv) pkgMember(p *types.Package, name string) SpecVal {
	obj := p.Scope().Lookup(name)
	switch o := obj.(type) {
	case *types.Const:
		return env.constVal(o)
	case *types.Var:
		sp := env.fx.g.prog.Package(p)
		if sp != nil {
			if g, ok := sp.Members[name].(*ssa.Global); ok {
				ptr := env.fx.ptrOf(g)
				return SpecVal{T: env.fx.Load(env.state(), ptr), Ty: o.Type()}
			}
		}
	}
	specFail("unknown package member %s.%s", p.Name(), name)
	return SpecVal{}
}

func (env *SpecEnv) constVal(o *types.Const) SpecVal {
	switch o.Val().Kind() {
	case constant.Int:
		n, _ := new(big.Int).SetString(o.Val().ExactString(), 10)
		return SpecVal{T: BigLit(n)}
	case constant.Bool:
		return SpecVal{T: BoolLit(constant.BoolVal(o.Val()))}
	case constant.String:
		return SpecVal{T: env.fx.tc.StrConst(constant.StringVal(o.Val())), Ty: types.Typ[types.String]}
	}
	specFail("constant %s of unsupported kind", o.Name())
	return SpecVal{}
}

func (env *SpecEnv) ident(name string) SpecVal {
	fx := env.fx
	if v, ok := env.vars[name]; ok && strings.HasPrefix(v.T.S, "q$") {
		return v // a bound (quantified) variable shadows everything
	}
	if v, ok := env.vars[name]; ok && !(env.locals && !env.inOld && env.isLocalName(name)) {
		return v
	}
	if env.locals && !env.inOld {
		if a := env.findLocal(name); a != nil {
			if os.Getenv("GOVC_DEBUG_LOCALS") != "" {
				if _, isParam := fx.params[name]; !isParam {
					fmt.Fprintf(os.Stderr, "LOCAL %s %s\n", fx.key, name)
				}
			}
			et := a.Type().(*types.Pointer).Elem()
			if a.Heap {
				ref, ok := fx.vals[a]
				if !ok {
					specFail("local %s is not allocated yet", name)
				}
				return SpecVal{T: fx.Load(env.st, &Ptr{Kind: PHeap, Ref: ref, ObjT: et, T: et}), Ty: et}
			}
			v, ok := env.st.cells[a]
			if !ok {
				specFail("local %s is not live at this point", name)
			}
			return SpecVal{T: v, Ty: et}
		}
	}
	if v, ok := env.vars[name]; ok {
		return v
	}
	// a closure's contract evaluated at a call site: captured variable x is bound as &x (its cell)
	if v, ok := env.vars["&"+name]; ok && v.Ty != nil {
		if pt, ok := v.Ty.Underlying().(*types.Pointer); ok {
			et := pt.Elem()
			return SpecVal{T: fx.Load(env.state(), &Ptr{Kind: PHeap, Ref: v.T, ObjT: et, T: et}), Ty: et}
		}
	}
	// captured variable of a closure
	var fvs []*ssa.FreeVar
	if fx.fn != nil {
		fvs = fx.fn.FreeVars
	}
	for _, fv := range fvs {
		if fv.Name() == name {
			et := fv.Type().(*types.Pointer).Elem()
			return SpecVal{T: fx.Load(env.state(), &Ptr{Kind: PHeap, Ref: fx.vals[fv], ObjT: et, T: et}), Ty: et}
		}
	}
	if name == "iter" && env.loop != nil && env.locals {
		// number of completed iterations of the current range-over-slice loop
		for _, a := range env.loop.cells {
			if a.Comment == "rangeindex" && a.Block() != nil && !env.loop.blocks[a.Block()] {
				if v, ok := env.st.cells[a]; ok {
					inner := false
					for _, other := range fx.loopList {
						if other != env.loop && other.blocks[env.loop.header] && false {
							inner = true
						}
					}
					_ = inner
					return SpecVal{T: App("+", SInt, v, IntLit(1))}
				}
			}
		}
		// a counting loop `for i := 0; i < n; i++`: the counter is the number of completed iterations
		if a, from := countingLoopCellFrom(fx.fn, env.loop); a != nil {
			if v, ok := env.st.cells[a]; ok {
				if from == 0 {
					return SpecVal{T: v}
				}
				return SpecVal{T: App("-", SInt, v, IntLit(from))}
			}
		}
		specFail("iter: the current loop is neither a range-over-slice loop nor a counting loop from a constant")
	}
	switch name {
	case "MaxUint64":
		return SpecVal{T: Term{"18446744073709551615", SInt}}
	case "MaxInt64":
		return SpecVal{T: Term{"9223372036854775807", SInt}}
	case "MaxUint32":
		return SpecVal{T: Term{"4294967295", SInt}}
	}
	if env.pkg != nil {
		if obj := env.pkg.Scope().Lookup(name); obj != nil {
			return env.pkgMember(env.pkg, name)
		}
	}
	specFail("unknown identifier %q", name)
	return SpecVal{}
}

// isLocalName reports whether name resolves to a local variable cell at the current loop.
func (env *SpecEnv) isLocalName(name string) bool { return env.findLocal(name) != nil }

// findLocal resolves a variable name to its storage cell using the Go scopes at the loop.
func (env *SpecEnv) findLocal(name string) *ssa.Alloc {
	fx := env.fx
	pos := env.pos
	if env.loop != nil {
		pos = env.loop.minPos
	}
	var cands []*ssa.Alloc
	for _, b := range fx.fn.Blocks {
		for _, in := range b.Instrs {
			if a, ok := in.(*ssa.Alloc); ok && a.Comment == name {
				cands = append(cands, a)
			}
		}
	}
	if len(cands) == 0 {
		return nil
	}
	if len(cands) == 1 {
		return cands[0]
	}
	// several variables share the name: use the Go scope at the loop position
	if pos.IsValid() && env.pkg != nil {
		if sc := env.pkg.Scope().Innermost(pos); sc != nil {
			if _, obj := sc.LookupParent(name, pos); obj != nil {
				for _, a := range cands {
					if a.Pos() == obj.Pos() {
						return a
					}
				}
			}
		}
	}
	// fall back: the candidate live in the current state declared latest before pos
	var best *ssa.Alloc
	for _, a := range cands {
		if _, live := env.st.cells[a]; !live && !a.Heap {
			continue
		}
		if pos.IsValid() && a.Pos() > pos {
			continue
		}
		if best == nil || a.Pos() > best.Pos() {
			best = a
		}
	}
	return best
}

// resolveType turns a textual type into a Go type (nil for mathematical sorts) and an SMT sort.
func (env *SpecEnv) resolveType(s string) (types.Type, string) {
	s = strings.TrimSpace(s)
	switch s {
	case "int", "Int", "":
		return nil, SInt
	case "bool", "Bool":
		return nil, SBool
	case "BSeq":
		env.fx.declBytes()
		return nil, "BSeq"
	}
	if strings.HasPrefix(s, "[") && !strings.HasPrefix(s, "[]") {
		// mathematical map [K]V (an SMT array)
		depth := 0
		for i, c := range s {
			if c == '[' {
				depth++
			}
			if c == ']' {
				depth--
				if depth == 0 {
					_, ks := env.resolveType(s[1:i])
					_, vs := env.resolveType(s[i+1:])
					return nil, ArraySort(ks, vs)
				}
			}
		}
		specFail("bad map type %q", s)
	}
	t := env.goType(s)
	return t, env.fx.tc.SortOf(t)
}

func (env *SpecEnv) goType(s string) types.Type {
	s = strings.TrimSpace(s)
	switch {
	case strings.HasPrefix(s, "*"):
		return types.NewPointer(env.goType(s[1:]))
	case strings.HasPrefix(s, "[]"):
		return types.NewSlice(env.goType(s[2:]))
	}
	if obj := types.Universe.Lookup(s); obj != nil {
		if tn, ok := obj.(*types.TypeName); ok {
			return tn.Type()
		}
	}
	if i := strings.LastIndex(s, "."); i >= 0 {
		p := env.importedPkg(s[:i])
		if p == nil {
			specFail("unknown package %q in type %q", s[:i], s)
		}
		if tn, ok := p.Scope().Lookup(s[i+1:]).(*types.TypeName); ok {
			return tn.Type()
		}
		specFail("unknown type %q", s)
	}
	if env.pkg != nil {
		if tn, ok := env.pkg.Scope().Lookup(s).(*types.TypeName); ok {
			return tn.Type()
		}
	}
	specFail("unknown type %q", s)
	return nil
}

func (env *SpecEnv) call(x SCall) SpecVal {
	fx := env.fx
	argv := func(i int) SpecVal {
		if i >= len(x.Args) {
			specFail("%s: missing argument %d", x.Fun, i)
		}
		return env.Eval(x.Args[i])
	}
	if x.Fun == "atentry" {
		// atentry(e): e in the state in which the current loop was entered (before its first iteration);
		// for an inner loop that is a state inside the current iteration of the outer loop
		if env.loop == nil || env.loop.preSt == nil || len(x.Args) != 1 {
			specFail("atentry(e) is only available in loop invariants")
		}
		savedSt := env.st
		env.st = env.loop.preSt
		v := env.Eval(x.Args[0])
		env.st = savedSt
		return v
	}
	if x.Fun == "local" {
		// local(x): the value a local variable of the function holds in the state the clause is evaluated in (in a
		// postcondition: at the return). It names storage, not an entry value, so it is only accepted for
		// variables that are not parameters.
		id, isIdent := x.Args[0].(SIdent)
		if len(x.Args) != 1 || !isIdent {
			specFail("local(x) takes the name of a local variable")
		}
		if _, isParam := fx.params[id.Name]; isParam {
			specFail("local(%s): %s is a parameter", id.Name, id.Name)
		}
		savedL, savedP := env.locals, env.pos
		env.locals = true
		if !env.pos.IsValid() && fx.fn.Syntax() != nil {
			env.pos = fx.fn.Syntax().End() - 1
		}
		v := env.ident(id.Name)
		env.locals, env.pos = savedL, savedP
		return v
	}
	if x.Fun == "athead" {
		// athead(e): e as it was at the loop head of the iteration whose end is being examined
		if env.head == nil || len(x.Args) != 1 {
			specFail("athead(e) is only available in iterensures clauses")
		}
		savedSt := env.st
		env.st = env.head
		v := env.Eval(x.Args[0])
		env.st = savedSt
		return v
	}
	switch x.Fun {
	case "len":
		v := argv(0)
		if v.Ty == nil {
			if v.T.Sort == "BSeq" {
				return SpecVal{T: App("bseq.len", SInt, v.T)}
			}
			specFail("len of a non-Go value")
		}
		switch u := v.Ty.Underlying().(type) {
		case *types.Slice:
			return SpecVal{T: App("sl.len", SInt, v.T)}
		case *types.Array:
			return SpecVal{T: IntLit(u.Len())}
		case *types.Basic:
			fx.sc.Declare("strlen", "(declare-fun strlen (Int) Int)")
			return SpecVal{T: App("strlen", SInt, v.T)}
		case *types.Map:
			fx.sc.Declare("uf:maplen", "(declare-fun maplen (Int) Int)")
			return SpecVal{T: App("maplen", SInt, v.T)}
		}
		specFail("len of %v", v.Ty)
	case "cap":
		return SpecVal{T: App("sl.cap", SInt, argv(0).T)}
	case "bytes":
		v := argv(0)
		if v.Ty != nil && isSlice(v.Ty) {
			return SpecVal{T: fx.BytesOf(env.state(), v.T)}
		}
		if v.Ty != nil {
			if b, ok := v.Ty.Underlying().(*types.Basic); ok && b.Info()&types.IsString != 0 {
				fx.declBytes()
				return SpecVal{T: App("str2seq", "BSeq", v.T)}
			}
		}
		specFail("bytes() of %v", v.Ty)
	case "unchanged":
		var cs []Term
		for _, a := range x.Args {
			cur := env.Eval(a)
			saved := env.inOld
			env.inOld = true
			old := env.Eval(a)
			env.inOld = saved
			if cur.Ty != nil && isSlice(cur.Ty) {
				if eb, ok := cur.Ty.Underlying().(*types.Slice).Elem().Underlying().(*types.Basic); ok && eb.Kind() == types.Uint8 {
					cs = append(cs, Eq(cur.T, old.T), Eq(fx.BytesOf(env.st, cur.T), fx.BytesOf(env.old, old.T)))
					continue
				}
			}
			cs = append(cs, Eq(cur.T, old.T))
		}
		return SpecVal{T: And(cs...)}
	case "u64":
		v := argv(0)
		return SpecVal{T: And(App("<=", SBool, TZero, v.T), App("<=", SBool, v.T, Term{"18446744073709551615", SInt}))}
	case "min":
		return SpecVal{T: App("imin", SInt, argv(0).T, argv(1).T)}
	case "max":
		return SpecVal{T: App("imax", SInt, argv(0).T, argv(1).T)}
	case "isnil":
		v := argv(0)
		if v.T.Sort == SIface {
			return SpecVal{T: Eq(App("if.tag", SInt, v.T), TZero)}
		}
		if v.T.Sort == SSlice {
			return SpecVal{T: Eq(App("sl.base", SInt, v.T), TZero)}
		}
		return SpecVal{T: Eq(v.T, TZero)}
	case "typeis":
		// typeis(x, T): dynamic type of interface x is T
		v := argv(0)
		id, ok := x.Args[1].(SIdent)
		var tyText string
		if ok {
			tyText = id.Name
		} else if se, ok := x.Args[1].(SSel); ok {
			tyText = se.X.(SIdent).Name + "." + se.Name
		} else if un, ok := x.Args[1].(SUnary); ok && un.Op == "*" {
			switch in := un.X.(type) {
			case SIdent:
				tyText = "*" + in.Name
			case SSel:
				tyText = "*" + in.X.(SIdent).Name + "." + in.Name
			}
		}
		t := env.goType(tyText)
		return SpecVal{T: Eq(App("if.tag", SInt, v.T), IntLit(int64(fx.tc.TypeTag(t))))}
	case "dyn":
		// dyn(x, T): payload of interface x viewed as T
		v := argv(0)
		var tyText string
		switch a := x.Args[1].(type) {
		case SIdent:
			tyText = a.Name
		case SSel:
			tyText = a.X.(SIdent).Name + "." + a.Name
		case SUnary:
			switch in := a.X.(type) {
			case SIdent:
				tyText = "*" + in.Name
			case SSel:
				tyText = "*" + in.X.(SIdent).Name + "." + in.Name
			}
		}
		t := env.goType(tyText)
		return SpecVal{T: fx.unbox(App("if.val", SInt, v.T), t), Ty: t}
	case "indom":
		// indom(m, k): key k present in map m
		m, k := argv(0), argv(1)
		mt, ok := m.Ty.Underlying().(*types.Map)
		if !ok {
			specFail("indom on %v", m.Ty)
		}
		dk, _ := fx.tc.MapKeys(mt)
		return SpecVal{T: And(App("distinct", SBool, m.T, TZero), Select(Select(fx.Heap(env.state(), dk), m.T), k.T))}
	case "bigval":
		v := argv(0)
		registerHeapKey("BigVal", ArraySort(SInt, SInt))
		return SpecVal{T: Select(fx.Heap(env.state(), "BigVal"), v.T)}
	case "samefields":
		// samefields(a, b, F1, F2, ...): the structs a and b point to agree on EVERY field of their
		// type except the listed ones. The field list comes from the Go type, so a field added to
		// the struct later is covered without touching the contract.
		a, b := argv(0), argv(1)
		at, ok1 := derefType(a.Ty)
		bt, ok2 := derefType(b.Ty)
		if !ok1 || !ok2 || !isStruct(at) || !types.Identical(at, bt) {
			specFail("samefields needs two pointers to the same struct type, got %v and %v", a.Ty, b.Ty)
		}
		except := map[string]bool{}
		for _, e := range x.Args[2:] {
			id, ok := e.(SIdent)
			if !ok {
				specFail("samefields: field names expected after the two objects")
			}
			except[id.Name] = true
		}
		si := fx.tc.StructOf(at)
		var cs []Term
		for _, f := range si.Fields {
			if except[f.Name] {
				delete(except, f.Name)
				continue
			}
			pa := &Ptr{Kind: PHeap, Ref: a.T, ObjT: at, T: f.Type, Path: []Sel{{SI: si, Field: f}}}
			pb := &Ptr{Kind: PHeap, Ref: b.T, ObjT: at, T: f.Type, Path: []Sel{{SI: si, Field: f}}}
			cs = append(cs, Eq(env.load(pa), env.load(pb)))
		}
		for n := range except {
			specFail("samefields: %v has no field %s", at, n)
		}
		return SpecVal{T: And(cs...)}
	case "alloc":
		// alloc(x): x refers to an object that exists in the current state (below the allocation frontier)
		v := argv(0)
		ref := v.T
		switch v.T.Sort {
		case SIface:
			ref = App("if.val", SInt, v.T)
		case SSlice:
			ref = App("sl.base", SInt, v.T)
		}
		return SpecVal{T: And(App("<", SBool, ref, env.state().nextRef), App(">", SBool, ref, TZero))}
	case "store":
		// store(m, k, v): the mathematical map m with key k bound to v
		m, k, v := argv(0), argv(1), argv(2)
		if !strings.HasPrefix(m.T.Sort, "(Array ") {
			specFail("store() on a non-map value")
		}
		return SpecVal{T: Store(m.T, k.T, v.T)}
	case "fresh":
		// fresh(x): the object x refers to was allocated after the old() state
		v := argv(0)
		if env.old == nil {
			specFail("fresh() needs an old state")
		}
		ref := v.T
		switch v.T.Sort {
		case SIface:
			ref = App("if.val", SInt, v.T)
		case SSlice:
			ref = App("sl.base", SInt, v.T)
		}
		if env.st != nil && env.st.nextRef.S != "" && env.st != env.old {
			// allocated during the call: at or above the old allocation frontier, below the new one
			return SpecVal{T: And(App(">=", SBool, ref, env.old.nextRef), App("<", SBool, ref, env.st.nextRef))}
		}
		return SpecVal{T: App(">=", SBool, ref, env.old.nextRef)}
	case "resultof":
		// resultof(F) / resultof(F, k): the (k-th, default first) result of THE call of F in this function - a way to
		// speak about a value the function obtained without naming the local variable it happens to be kept in (names of
		// locals are not part of a function's behaviour; renaming one must not invalidate a clause). F must be called at
		// exactly one place, and that call must already have been executed on the paths reaching the clause.
		id, isIdent := x.Args[0].(SIdent)
		if len(x.Args) < 1 || len(x.Args) > 2 || !isIdent {
			specFail("resultof(F[, k]) takes a function name and an optional result index")
		}
		k := 0
		if len(x.Args) == 2 {
			lit, ok := x.Args[1].(SIntLit)
			if !ok {
				specFail("resultof: the result index must be a literal")
			}
			k = int(lit.V.Int64())
		}
		var found ssa.CallInstruction
		for _, b := range fx.fn.Blocks {
			for _, in := range b.Instrs {
				ci, ok := in.(ssa.CallInstruction)
				if !ok {
					continue
				}
				if _, isDefer := in.(*ssa.Defer); isDefer {
					continue
				}
				if calleeMatches(spawnKey(ci.Common()), id.Name) {
					if found != nil {
						specFail("resultof(%s): called at more than one place", id.Name)
					}
					found = ci
				}
			}
		}
		if found == nil {
			specFail("resultof(%s): no such call in this function", id.Name)
		}
		v, isVal := found.(ssa.Value)
		if !isVal {
			specFail("resultof(%s): the call has no result", id.Name)
		}
		sig := found.Common().Signature()
		if k >= sig.Results().Len() {
			specFail("resultof(%s, %d): no such result", id.Name, k)
		}
		if sig.Results().Len() == 1 {
			t, ok := fx.vals[v]
			if !ok {
				specFail("resultof(%s): the call has not been executed on this path", id.Name)
			}
			return SpecVal{T: t, Ty: sig.Results().At(0).Type()}
		}
		tup, ok := fx.tuples[v]
		if !ok || k >= len(tup) {
			specFail("resultof(%s): the call has not been executed on this path", id.Name)
		}
		return SpecVal{T: tup[k], Ty: sig.Results().At(k).Type()}
	case "received":
		// received(x): x is the value taken off a channel by the case that fired in the select statement executed last
		// (in a service loop: the select of this iteration). False when a case without a matching receive fired.
		if fx.lastSelect == nil {
			specFail("received(x): no select statement has been executed")
		}
		v := argv(0)
		tup := fx.tuples[fx.lastSelect]
		var alts []Term
		k := 2
		for j, sst := range fx.lastSelect.States {
			if sst.Dir != types.RecvOnly {
				continue
			}
			if k < len(tup) && tup[k].Sort == v.T.Sort {
				alts = append(alts, And(Eq(tup[0], IntLit(int64(j))), Eq(v.T, tup[k])))
			}
			k++
		}
		if len(alts) == 0 {
			return SpecVal{T: TFalse}
		}
		return SpecVal{T: Or(alts...)}
	case "deferred":
		// deferred(F): at this point a deferred call of F is registered on EVERY path that reaches here (it will run
		// whichever way the function returns from now on). Decided on the symbolic defer stack, not by the solver.
		id, isIdent := x.Args[0].(SIdent)
		if len(x.Args) != 1 || !isIdent {
			specFail("deferred(F) takes a function name")
		}
		for _, d := range env.state().defers {
			if _, conditional := env.state().dguard[d]; conditional {
				continue
			}
			if calleeMatches(spawnKey(d.Common()), id.Name) {
				return SpecVal{T: TTrue}
			}
		}
		return SpecVal{T: TFalse}
	case "freshiter":
		// freshiter(x): the object x refers to was allocated during the iteration whose end is being examined
		if env.head == nil || env.head.nextRef.S == "" {
			specFail("freshiter(x) is only available in iterensures clauses")
		}
		v := argv(0)
		ref := v.T
		switch v.T.Sort {
		case SIface:
			ref = App("if.val", SInt, v.T)
		case SSlice:
			ref = App("sl.base", SInt, v.T)
		}
		return SpecVal{T: And(App(">=", SBool, ref, env.head.nextRef), App("<", SBool, ref, env.state().nextRef))}
	case "wrap64":
		return SpecVal{T: App("wrapU", SInt, argv(0).T, BigLit(pow2(64)))}
	}
	// user-defined spec function
	if sf := fx.g.lookupSpecFunc(x.Fun, env.pkg); sf != nil {
		return env.callSpecFunc(sf, x)
	}
	specFail("unknown spec function %q", x.Fun)
	return SpecVal{}
}

func (env *SpecEnv) callSpecFunc(sf *SpecFunc, x SCall) SpecVal {
	fx := env.fx
	if sf.Ghost && len(x.Args) == 0 {
		// the whole ghost map
		genv := &SpecEnv{fx: fx, st: env.state(), old: env.old, vars: map[string]SpecVal{}, pkg: env.pkg}
		if sf.Pkg != "" {
			if p := fx.g.typesPkg(sf.Pkg); p != nil {
				genv.pkg = p
			}
		}
		_, ks := genv.resolveType(sf.Params[0].Type)
		_, vs := genv.resolveType(sf.Ret)
		return SpecVal{T: fx.Heap(env.state(), ghostKey(sf, ks, vs))}
	}
	if len(x.Args) != len(sf.Params) {
		specFail("%s expects %d arguments", sf.Name, len(sf.Params))
	}
	args := make([]SpecVal, len(x.Args))
	for i, a := range x.Args {
		args[i] = env.Eval(a)
	}
	// environment for the callee's own types
	fenv := &SpecEnv{fx: fx, st: env.state(), old: env.old, vars: map[string]SpecVal{}, pkg: env.pkg}
	if sf.Pkg != "" {
		if p := fx.g.typesPkg(sf.Pkg); p != nil {
			fenv.pkg = p
		}
	}
	retTy, retSort := fenv.resolveType(sf.Ret)
	var ptys []types.Type
	var psorts []string
	for i, p := range sf.Params {
		ty, srt := fenv.resolveType(p.Type)
		ptys = append(ptys, ty)
		psorts = append(psorts, srt)
		if args[i].T.Sort != srt && srt == SIface && args[i].Ty != nil {
			// implicit conversion of a concrete value to the interface parameter
			args[i] = SpecVal{T: fx.makeIface(args[i].T, args[i].Ty), Ty: ty, Dyn: args[i].Ty}
		}
		if args[i].T.Sort != srt {
			// nil literal
			if ty != nil && args[i].Ty != nil {
				if bt, ok := args[i].Ty.(*types.Basic); ok && bt.Kind() == types.UntypedNil {
					args[i] = SpecVal{T: fx.tc.Zero(ty), Ty: ty}
					continue
				}
			}
			specFail("%s: argument %d has sort %s, want %s", sf.Name, i, args[i].T.Sort, srt)
		}
	}
	if sf.Ghost {
		key := ghostKey(sf, psorts[0], retSort)
		v := Select(fx.Heap(env.state(), key), args[0].T)
		if retTy != nil && !strings.Contains(v.S, "q$") {
			// a ghost field declared with a Go type holds values of that type (its only writers are
			// the assumed accessor contracts, which copy typed program values into it)
			fx.sc.Assume(fx.tc.WellTyped(v, retTy, 1))
		}
		return SpecVal{T: v, Ty: retTy}
	}
	if sf.Body == nil {
		// uninterpreted
		name := "sf$" + sanitize(sf.Name)
		fx.sc.Declare("uf:"+name, fmt.Sprintf("(declare-fun %s (%s) %s)", name, strings.Join(psorts, " "), retSort))
		ts := make([]Term, len(args))
		for i := range args {
			ts[i] = args[i].T
		}
		if sf.ReadsReach && len(args) > 0 {
			ct := args[0].Dyn
			if ct == nil && args[0].Ty != nil && !isIface(args[0].Ty) {
				ct = args[0].Ty
			}
			if ct != nil {
				if keys, ok := fx.reachKeys(ct); ok {
					rname := name + "$r$" + sanitize(shortTypeName(ct))
					srts := append([]string(nil), psorts...)
					for _, k := range keys {
						srts = append(srts, heapSorts[k])
						ts = append(ts, fx.Heap(env.state(), k))
					}
					fx.sc.Declare("uf:"+rname, fmt.Sprintf("(declare-fun %s (%s) %s)", rname, strings.Join(srts, " "), retSort))
					return SpecVal{T: App(rname, retSort, ts...), Ty: retTy}
				}
			}
		}
		if sf.ReadsHeap {
			// value may depend on anything in the heap: parametrised by the heap version token
			name += "$h"
			fx.sc.Declare("uf:"+name, fmt.Sprintf("(declare-fun %s (%s Int) %s)", name, strings.Join(psorts, " "), retSort))
			hv := env.state().hv
			if hv.S == "" {
				hv = TZero
			}
			ts = append(ts, hv)
			return SpecVal{T: App(name, retSort, ts...), Ty: retTy}
		}
		if len(ts) == 0 {
			return SpecVal{T: Term{name, retSort}, Ty: retTy}
		}
		if bt, ok := retTy.(*types.Basic); ok && retTy != nil && bt.Info()&types.IsInteger != 0 && retSort == SInt {
			// an uninterpreted function declared with a Go integer result type only takes values of that type
			var bs, as []string
			for i, ps := range psorts {
				bs = append(bs, fmt.Sprintf("(a%d!q %s)", i, ps))
				as = append(as, fmt.Sprintf("a%d!q", i))
			}
			app := Term{"(" + name + " " + strings.Join(as, " ") + ")", SInt}
			if wt := fx.tc.WellTyped(app, retTy, 0); wt.S != "true" {
				fx.sc.Declare("ufrange:"+name, fmt.Sprintf("(assert (forall (%s) %s))", strings.Join(bs, " "), wt.S))
			}
		}
		return SpecVal{T: App(name, retSort, ts...), Ty: retTy}
	}
	if !sf.Rec {
		// macro expansion in the current state
		for i, p := range sf.Params {
			fenv.vars[p.Name] = SpecVal{T: args[i].T, Ty: ptys[i]}
		}
		fenv.recName = env.recName
		fenv.recKeys = env.recKeys
		v := fenv.Eval(sf.Body)
		return SpecVal{T: v.T, Ty: retTy}
	}
	// recursive: define-fun-rec with the heap arrays it reads as extra parameters
	def := fx.recDef(sf, fenv, ptys, psorts, retSort)
	ts := make([]Term, 0, len(args)+len(def.keys))
	for i := range args {
		ts = append(ts, args[i].T)
	}
	if env.recName == sf.Name {
		// recursive occurrence inside the body being defined: heap parameters are the formals
		return SpecVal{T: Term{"(" + def.name + " " + joinTerms(ts) + " $HEAP$)", retSort}, Ty: retTy}
	}
	for _, k := range def.keys {
		ts = append(ts, fx.Heap(env.state(), k))
	}
	return SpecVal{T: App(def.name, retSort, ts...), Ty: retTy}
}

func joinTerms(ts []Term) string {
	ss := make([]string, len(ts))
	for i, t := range ts {
		ss[i] = t.S
	}
	return strings.Join(ss, " ")
}

type recDefInfo struct {
	name string
	keys []string
}

// recDef emits (once per script) the define-fun-rec of a recursive spec function.
func (fx *FnExec) recDef(sf *SpecFunc, fenv *SpecEnv, ptys []types.Type, psorts []string, retSort string) *recDefInfo {
	if fx.recDefs == nil {
		fx.recDefs = map[string]*recDefInfo{}
	}
	if d, ok := fx.recDefs[sf.Name]; ok {
		return d
	}
	d := &recDefInfo{name: "sf$" + sanitize(sf.Name)}
	fx.recDefs[sf.Name] = d
	// evaluate the body over a formal heap: a root epoch whose arrays are named formals
	formal := &State{R: TTrue, cells: map[*ssa.Alloc]Term{}, heap: map[string]Term{}, iters: map[ssa.Value]Term{}, nextRef: TZero}
	formal.epoch = &Epoch{id: -1, vals: map[string]Term{}}
	fx.formalEpoch = formal.epoch
	fx.formalKeys = nil
	benv := &SpecEnv{fx: fx, st: formal, old: formal, vars: map[string]SpecVal{}, pkg: fenv.pkg, recName: sf.Name}
	var formals []string
	for i, p := range sf.Params {
		n := "a$" + sanitize(p.Name)
		benv.vars[p.Name] = SpecVal{T: Term{n, psorts[i]}, Ty: ptys[i]}
		formals = append(formals, fmt.Sprintf("(%s %s)", n, psorts[i]))
	}
	// body definitions must not leak into the script body: capture emitted lines
	mark := len(fx.sc.body)
	body := benv.Eval(sf.Body)
	extra := fx.sc.body[mark:]
	fx.sc.body = fx.sc.body[:mark]
	if len(extra) > 0 {
		// inline the auxiliary definitions as lets
		bt := body.T.S
		for i := len(extra) - 1; i >= 0; i-- {
			l := extra[i]
			if strings.HasPrefix(l, "(define-fun ") {
				rest := l[len("(define-fun "):]
				sp := strings.Index(rest, " ")
				name := rest[:sp]
				// "() Sort expr)"
				rest = strings.TrimSpace(rest[sp:])
				rest = strings.TrimPrefix(rest, "()")
				rest = strings.TrimSpace(rest)
				// skip the sort
				srtEnd := sortEnd(rest)
				expr := strings.TrimSpace(rest[srtEnd:])
				expr = expr[:len(expr)-1]
				bt = fmt.Sprintf("(let ((%s %s)) %s)", name, expr, bt)
			} else if strings.HasPrefix(l, "(assert ") {
				// ground facts emitted by helpers are dropped inside spec function bodies
			} else {
				specFail("spec function %s: body needs a declaration that cannot be inlined: %s", sf.Name, l)
			}
		}
		body.T.S = bt
	}
	d.keys = append([]string(nil), fx.formalKeys...)
	fx.formalEpoch = nil
	var heapFormals, heapNames []string
	for _, k := range d.keys {
		heapFormals = append(heapFormals, fmt.Sprintf("(%s %s)", formalHeapName(k), heapSorts[k]))
		heapNames = append(heapNames, formalHeapName(k))
	}
	text := strings.ReplaceAll(body.T.S, " $HEAP$)", " "+strings.Join(heapNames, " ")+")")
	if len(heapNames) == 0 {
		text = strings.ReplaceAll(body.T.S, " $HEAP$)", ")")
	}
	fx.sc.Declare("rec:"+d.name, fmt.Sprintf("(define-fun-rec %s (%s) %s %s)", d.name,
		strings.Join(append(formals, heapFormals...), " "), retSort, text))
	return d
}

func formalHeapName(k string) string { return "F!" + k }

func sortEnd(s string) int {
	if strings.HasPrefix(s, "(") {
		depth := 0
		for i, c := range s {
			if c == '(' {
				depth++
			}
			if c == ')' {
				depth--
				if depth == 0 {
					return i + 1
				}
			}
		}
	}
	return strings.Index(s, " ")
}

func ghostKey(sf *SpecFunc, ksort, vsort string) string {
	return registerHeapKey("GH$"+sanitize(sf.Name), ArraySort(ksort, vsort))
}

var qvarRe = regexp.MustCompile(`q\$[A-Za-z0-9_]+`)

// boundIn reports whether every quantified variable occurring in term is declared by one of the binders.
func boundIn(term string, binders []string) bool {
	for _, q := range qvarRe.FindAllString(term, -1) {
		ok := false
		for _, b := range binders {
			if strings.HasPrefix(b, "("+q+" ") {
				ok = true
				break
			}
		}
		if !ok {
			return false
		}
	}
	return true
}

// countingLoopCell recognises `for i := 0; i < n; i++ { ... }` (i not address-taken, assigned nowhere else): the header
// tests `i < n`, the only store to i inside the loop is i+1, the only store outside is the constant 0. Returns i's cell.
func countingLoopCell(fn *ssa.Function, li *loopInfo) *ssa.Alloc {
	a, _ := countingLoopCellFrom(fn, li)
	return a
}

// countingLoopCellFrom is countingLoopCell for any constant start c >= 0 (`for i := c; i < n; i++`); it returns the cell
// and c. The number of completed iterations is i - c.
func countingLoopCellFrom(fn *ssa.Function, li *loopInfo) (*ssa.Alloc, int64) {
	var cand *ssa.Alloc
	var start int64
	for _, in := range li.header.Instrs {
		cmp, ok := in.(*ssa.BinOp)
		if !ok || cmp.Op != token.LSS {
			continue
		}
		ld, ok := cmp.X.(*ssa.UnOp)
		if !ok || ld.Op != token.MUL {
			continue
		}
		if a, ok := ld.X.(*ssa.Alloc); ok && !a.Heap && a.Comment != "rangeindex" {
			cand = a
		}
	}
	if cand == nil || cand.Referrers() == nil {
		return nil, 0
	}
	inside, outside := 0, 0
	for _, r := range *cand.Referrers() {
		switch x := r.(type) {
		case *ssa.Store:
			if x.Addr != ssa.Value(cand) {
				return nil, 0
			}
			if li.blocks[x.Block()] {
				add, ok := x.Val.(*ssa.BinOp)
				if !ok || add.Op != token.ADD {
					return nil, 0
				}
				l, ok := add.X.(*ssa.UnOp)
				if !ok || l.X != ssa.Value(cand) {
					return nil, 0
				}
				if c, ok := add.Y.(*ssa.Const); !ok || c.Int64() != 1 {
					return nil, 0
				}
				inside++
			} else {
				c, ok := x.Val.(*ssa.Const)
				if !ok || c.Value == nil || c.Int64() < 0 {
					return nil, 0
				}
				start = c.Int64()
				outside++
			}
		case *ssa.UnOp, *ssa.DebugRef:
		default:
			return nil, 0
		}
	}
	if inside != 1 || outside != 1 {
		return nil, 0
	}
	return cand, start
}
