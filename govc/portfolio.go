package main

import "context"

// raceSolvers runs all solvers on a query file and returns the first definite answer.
func raceSolvers(file string, timeoutS int) (answer, out, solver string) {
	type res struct{ ans, out, name string }
	ctx, cancel := context.WithCancel(context.Background())
	defer cancel()
	ch := make(chan res, len(solvers))
	for _, sp := range solvers {
		sp := sp
		go func() {
			a, o, _ := runSolver(ctx, sp, timeoutS, file)
			ch <- res{a, o, sp.name}
		}()
	}
	answer = "unknown"
	for range solvers {
		x := <-ch
		if x.ans == "sat" || x.ans == "unsat" {
			return x.ans, x.out, x.name
		}
		if answer == "unknown" {
			answer, out, solver = x.ans, x.out, x.name
		}
	}
	return
}
