package main

import (
	"fmt"
	"os"
	"path/filepath"
	"strings"
)

type ReplayInfo struct {
	Path       string
	Reproduced bool
}

// writeReplay records a failed obligation: its name, clause, source position, the solver's answer
// and model, and the SMT query itself. When the model can be turned into concrete inputs for the
// real function, a Go test is generated and run against /repo (see replaygo.go).
func writeReplay(g *Gen, vdir, pid string, r *Result) ReplayInfo {
	dir := filepath.Join(outDir(vdir), "replays", pid)
	os.MkdirAll(dir, 0o755)
	base := sanitize(r.Obl.Name)
	if len(base) > 150 {
		base = base[:150]
	}
	path := filepath.Join(dir, base+".replay.txt")
	var sb strings.Builder
	fmt.Fprintf(&sb, "property:   %s\n", pid)
	fmt.Fprintf(&sb, "obligation: %s\n", r.Obl.Name)
	fmt.Fprintf(&sb, "kind:       %s\n", r.Obl.Kind)
	fmt.Fprintf(&sb, "clause:     %s\n", r.Obl.Text)
	fmt.Fprintf(&sb, "position:   %s\n", r.Obl.Pos)
	fmt.Fprintf(&sb, "status:     %s (solver answer: %s by %s in %.2fs)\n", r.Status, r.Answer, r.Solver, r.TimeS)
	if r.Obl.Err != "" {
		fmt.Fprintf(&sb, "generator:  %s\n", r.Obl.Err)
	}
	info := ReplayInfo{Path: path}
	if r.SMTFile != "" {
		dst := filepath.Join(dir, base+".smt2")
		if b, err := os.ReadFile(r.SMTFile); err == nil {
			os.WriteFile(dst, b, 0o644)
			fmt.Fprintf(&sb, "query:      %s (re-run: z3-new %s)\n", dst, dst)
		}
	}
	if r.Model != "" {
		fmt.Fprintf(&sb, "\n--- solver model (parameters of the function at entry) ---\n%s\n", strings.TrimSpace(r.Model))
	}
	if r.Output != "" {
		fmt.Fprintf(&sb, "\n--- solver output ---\n%s\n", firstLines(r.Output, 40))
	}
	if r.Status == "failed" && r.Answer == "sat" {
		if rep := tryGoReplay(g, vdir, pid, r, dir, base); rep != nil {
			fmt.Fprintf(&sb, "\n--- replay against the real code ---\n%s\n", rep.Log)
			info.Reproduced = rep.Reproduced
		}
	}
	if !info.Reproduced && r.Answer != "sat" && (r.Status == "unknown" || r.Status == "failed") {
		if rep := searchScalarFailingInput(g, r, dir, base); rep != nil {
			fmt.Fprintf(&sb, "\n--- search for a failing input on the real code ---\n%s\n", rep.Log)
			info.Reproduced = rep.Reproduced
		}
	}
	os.WriteFile(path, []byte(sb.String()), 0o644)
	return info
}

type goReplay struct {
	Reproduced bool
	Log        string
}

// BoundedResult is the outcome of a bounded stand-in runner.
type BoundedResult struct {
	Name        string
	Bound       string
	Evaluations int
	Distinct    int
	Exhaustive  bool
	Violations  []string // replay paths
	Known       []string // descriptions of known findings re-observed
	KnownIDs    []string
	Samples     []any
}
