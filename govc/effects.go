package main

import (
	"go/types"
	"os"
	"strings"

	"golang.org/x/tools/go/ssa"
)

// Effects infers, from the SSA of the loaded packages, which heap arrays each function may
// write (transitively). It is recomputed from /repo on every run; nothing here is annotation.
type Effects struct {
	g     *Gen
	tc    *TypeCtx
	fx    *FnExec // carrier for type resolution of modifies clauses
	final map[*ssa.Function]*ModSet
	cur   map[*ssa.Function]*ModSet
	used  map[string]bool // extern/pure assumptions consulted
	inLoop bool           // computing the write set of a loop body in the function being verified
}

func NewEffects(g *Gen) *Effects {
	e := &Effects{g: g, final: map[*ssa.Function]*ModSet{}, used: map[string]bool{}}
	e.tc = NewTypeCtx(nil)
	e.fx = &FnExec{g: g, tc: e.tc}
	return e
}

// pureExternPrefixes lists external (no source loaded) functions assumed not to write any
// caller-visible memory. Every use is reported in the evidence as an assumption.
var pureExternPrefixes = []string{
	"bytes.Equal", "bytes.Compare", "bytes.HasPrefix", "bytes.HasSuffix", "bytes.Contains", "bytes.Index", "bytes.Clone", "bytes.Join", "bytes.Repeat", "bytes.TrimLeft", "bytes.TrimPrefix",
	"strings.", "fmt.Sprintf", "fmt.Sprint", "fmt.Errorf", "errors.", "math.", "math/bits.", "strconv.", "unicode.", "unicode/utf8.",
	"encoding/hex.EncodeToString", "encoding/hex.DecodeString", "(encoding/binary.bigEndian).Uint", "(encoding/binary.littleEndian).Uint",
	"encoding/binary.Uvarint", "encoding/binary.Varint",
	"time.", "(time.", "(*time.",
	"crypto/sha256.Sum256", "slices.Contains", "slices.Index", "slices.Equal", "slices.Clone", "slices.Max", "slices.Min", "slices.IndexFunc", "slices.ContainsFunc",
	"google.golang.org/protobuf/proto.Marshal", "google.golang.org/protobuf/proto.Size", "google.golang.org/protobuf/proto.Equal", "google.golang.org/protobuf/proto.Clone",
	"(google.golang.org/protobuf/proto.MarshalOptions).Marshal",
	"(*math/big.Int).Cmp", "(*math/big.Int).Sign", "(*math/big.Int).IsUint64", "(*math/big.Int).Uint64", "(*math/big.Int).String", "(*math/big.Int).BitLen", "(*math/big.Int).IsInt64", "(*math/big.Int).Int64",
	"math/big.NewInt",
	"(error).Error", "(fmt.Stringer).String",
	"reflect.TypeOf", "reflect.DeepEqual", "(reflect.Type).",
	"github.com/ethereum/go-ethereum/crypto.VerifySignature", "github.com/ethereum/go-ethereum/crypto.FromECDSAPub", "github.com/ethereum/go-ethereum/crypto.CompressPubkey", "crypto/ed25519.Verify",
	"runtime/debug.Stack", "runtime.Caller", "runtime.FuncForPC", "(*runtime.Func).Name",
	"sync/atomic.Load", "(*sync/atomic.Int64).Store", "(*sync/atomic.Uint64).Store", "(*sync/atomic.Int32).Store", "(*sync/atomic.Bool).Load", "(*sync/atomic.Int64).Load", "(*sync/atomic.Uint64).Load", "(*sync/atomic.Int32).Load",
	"(*sync.Mutex).", "(*sync.RWMutex).", "(sync.Locker).",
	"(lib.LoggerI).", "(lib.ErrorI).", "(lib/crypto.PublicKeyI).", "(lib/crypto.AddressI).",
	"(google.golang.org/protobuf/reflect/protoreflect.Message).Descriptor", "(google.golang.org/protobuf/internal/impl.Export).MessageStringOf",
	"github.com/drand/kyber", "(github.com/drand/kyber",
	"google.golang.org/protobuf/encoding/protowire.", "reflect.ValueOf", "(reflect.Value).Kind", "(reflect.Value).IsNil", "(reflect.Value).Len",
	"(google.golang.org/protobuf/reflect/protoreflect.", "cmp.Compare", "bytes.NewReader", "bytes.NewBuffer",
	"(encoding/binary.bigEndian).String", "encoding/binary.Size",
	"(github.com/prometheus/client_golang/prometheus.", "(*github.com/prometheus/client_golang/prometheus.",
	"(*github.com/google/btree.BTreeG", "github.com/google/btree.NewG",
	"regexp.MatchString", "regexp.MustCompile", "(*regexp.Regexp).Match", "net/url.Parse", "net.ParseIP", "net.SplitHostPort",
	"slices.BinarySearch", "slices.IsSorted", "slices.Compare", "maps.Keys", "maps.Values", "slices.Collect", "slices.Sorted",
}

// bigIntWriters: math/big methods that write only the receiver's value (ghost array BigVal).
var bigValWriters = []string{"(*math/big.Int).Set", "(*math/big.Int).Add", "(*math/big.Int).Sub", "(*math/big.Int).Mul", "(*math/big.Int).Div",
	"(*math/big.Int).Quo", "(*math/big.Int).Mod", "(*math/big.Int).Rem", "(*math/big.Int).Sqrt", "(*math/big.Int).Exp", "(*math/big.Int).Lsh", "(*math/big.Int).Rsh", "(*math/big.Int).Neg", "(*math/big.Int).Abs"}

func (e *Effects) external(key string) *ModSet {
	if ct := e.g.contracts[key]; ct != nil && ct.Modifies != nil {
		return ct.Modifies.ResolveIn(e.fx, nil)
	}
	for _, p := range bigValWriters {
		if strings.HasPrefix(key, p) {
			e.used["extern writes only the big.Int value: "+key] = true
			registerHeapKey("BigVal", ArraySort(SInt, SInt))
			ms := NewModSet()
			ms.Add("BigVal")
			return ms
		}
	}
	for _, p := range pureExternPrefixes {
		if strings.HasPrefix(key, p) {
			e.used["extern assumed side-effect free: "+key] = true
			return NewModSet()
		}
	}
	return &ModSet{All: true, Keys: map[string]bool{}}
}

// fresh: a write through v is invisible to the caller (memory allocated by this invocation).
// Inside a loop that exemption does not apply: objects allocated by earlier iterations persist.
func (e *Effects) fresh(v ssa.Value) bool { return !e.inLoop && freshRoot(v) }

// of returns the (transitive) write set of fn.
func (e *Effects) of(fn *ssa.Function) *ModSet {
	if ms, ok := e.final[fn]; ok {
		return ms
	}
	savedLoop := e.inLoop
	e.inLoop = false
	defer func() { e.inLoop = savedLoop }()
	if len(fn.Blocks) == 0 {
		return e.external(funcKey(fn))
	}
	// collect the functions reachable through static calls
	set := map[*ssa.Function]bool{}
	var order []*ssa.Function
	var dfs func(f *ssa.Function)
	dfs = func(f *ssa.Function) {
		if set[f] || len(f.Blocks) == 0 {
			return
		}
		if _, done := e.final[f]; done {
			return
		}
		set[f] = true
		order = append(order, f)
		for _, b := range f.Blocks {
			for _, in := range b.Instrs {
				if ci, ok := in.(ssa.CallInstruction); ok {
					if c := ci.Common().StaticCallee(); c != nil {
						dfs(c)
					}
				}
				if mc, ok := in.(*ssa.MakeClosure); ok {
					dfs(mc.Fn.(*ssa.Function))
				}
			}
		}
	}
	dfs(fn)
	e.cur = map[*ssa.Function]*ModSet{}
	for _, f := range order {
		e.cur[f] = NewModSet()
	}
	for changed := true; changed; {
		changed = false
		for _, f := range order {
			ms := NewModSet()
			func() {
				defer func() {
					if r := recover(); r != nil {
						if _, ok := r.(Unsupported); ok {
							ms.All = true
							return
						}
						if _, ok := r.(SpecError); ok {
							ms.All = true
							return
						}
						panic(r)
					}
				}()
				for _, b := range f.Blocks {
					for _, in := range b.Instrs {
						e.instrWrites(e.tc, f, in, ms)
					}
				}
			}()
			if e.cur[f].Union(ms) {
				changed = true
			}
		}
	}
	for _, f := range order {
		e.final[f] = e.cur[f]
	}
	e.cur = nil
	return e.final[fn]
}

func (e *Effects) lookup(f *ssa.Function) *ModSet {
	if ms, ok := e.final[f]; ok {
		return ms
	}
	if e.cur != nil {
		if ms, ok := e.cur[f]; ok {
			return ms
		}
	}
	if len(f.Blocks) == 0 {
		return e.external(funcKey(f))
	}
	// not part of the current fixpoint: compute separately
	saved := e.cur
	ms := e.of(f)
	e.cur = saved
	return ms
}

// freshRoot reports whether address v points into an object allocated by this very function
// invocation (writes to it are invisible to the caller's pre-state).
func freshRoot(v ssa.Value) bool { return freshRootV(v, map[*ssa.Alloc]bool{}, 0) }

func freshRootD(v ssa.Value, depth int) bool { return freshRootV(v, map[*ssa.Alloc]bool{}, depth) }

// freshRootV: visiting holds the local cells whose contents are currently being classified; a
// cell that only ever receives fresh values, nil, or values derived from its own content
// (x = append(x, ...)) holds fresh memory only (it starts out zero).
func freshRootV(v ssa.Value, visiting map[*ssa.Alloc]bool, depth int) bool {
	if depth > 12 {
		return false
	}
	for {
		switch x := v.(type) {
		case *ssa.Alloc:
			return true
		case *ssa.FieldAddr:
			v = x.X
		case *ssa.IndexAddr:
			v = x.X
		case *ssa.Slice:
			v = x.X
		case *ssa.MakeSlice, *ssa.MakeMap:
			return true
		case *ssa.Const:
			return x.Value == nil // nil slice / map / pointer: nothing to write through
		case *ssa.Phi:
			for _, e := range x.Edges {
				if !freshRootV(e, visiting, depth+1) {
					return false
				}
			}
			return true
		case *ssa.Call:
			if b, ok := x.Call.Value.(*ssa.Builtin); ok && b.Name() == "append" {
				v = x.Call.Args[0]
				continue
			}
			return false
		case *ssa.UnOp:
			// a load from a non-escaping local: fresh when everything ever stored there is fresh
			a, ok := x.X.(*ssa.Alloc)
			if !ok || a.Heap || x.Op.String() != "*" {
				return false
			}
			if visiting[a] {
				return true
			}
			visiting[a] = true
			refs := a.Referrers()
			if refs == nil {
				return false
			}
			stores := 0
			for _, r := range *refs {
				switch s := r.(type) {
				case *ssa.Store:
					if s.Addr != a {
						return false
					}
					stores++
					if !freshRootV(s.Val, visiting, depth+1) {
						return false
					}
				case *ssa.UnOp, *ssa.DebugRef:
				default:
					return false // address used in some other way (field address, passed along)
				}
			}
			return stores > 0
		default:
			return false
		}
	}
}

// instrWrites adds to ms the heap arrays instruction in may write.
func (e *Effects) instrWrites(tc *TypeCtx, fn *ssa.Function, in ssa.Instruction, ms *ModSet) {
	switch in := in.(type) {
	case *ssa.Store:
		if rootCell(in.Addr) != nil || e.fresh(in.Addr) {
			return
		}
		e.addrWrites(tc, in.Addr, ms)
	case *ssa.MapUpdate:
		if e.fresh(in.Map) {
			return
		}
		d, v := tc.MapKeys(in.Map.Type().Underlying().(*types.Map))
		ms.Add(d)
		ms.Add(v)
	case *ssa.Go:
		ms.All = true
	case *ssa.Send, *ssa.Select:
		// channel contents are not part of the modelled state
	case ssa.CallInstruction:
		c := in.Common()
		if b, ok := c.Value.(*ssa.Builtin); ok {
			switch b.Name() {
			case "append":
				// may write into the spare capacity of the first argument's backing array
				if !e.fresh(c.Args[0]) {
					ms.Add(tc.ElemKey(c.Args[0].Type().Underlying().(*types.Slice).Elem()))
				}
			case "copy":
				if !e.fresh(c.Args[0]) {
					ms.Add(tc.ElemKey(c.Args[0].Type().Underlying().(*types.Slice).Elem()))
				}
			case "delete":
				if !e.fresh(c.Args[0]) {
					d, _ := tc.MapKeys(c.Args[0].Type().Underlying().(*types.Map))
					ms.Add(d)
				}
			case "clear":
				ms.All = true
			}
			return
		}
		if c.IsInvoke() {
			key := ifaceMethodKey(c.Method)
			if ct := e.g.contracts[key]; ct != nil && ct.Modifies != nil {
				names := []string{"self"}
				msig := c.Method.Type().(*types.Signature)
				for i := 0; i < msig.Params().Len(); i++ {
					names = append(names, msig.Params().At(i).Name())
				}
				vals := append([]ssa.Value{c.Value}, c.Args...)
				tys := make([]types.Type, len(vals))
				for i, v := range vals {
					tys[i] = v.Type()
				}
				ms.Union(ct.Modifies.ResolveAt(e.fx, c.Method.Pkg(), names, vals, nil, tys))
				return
			}
			ms.Union(e.external(key))
			return
		}
		callee := c.StaticCallee()
		if callee == nil {
			if mc := closureOfValue(c.Value); mc != nil {
				ms.Union(e.lookup(mc.Fn.(*ssa.Function)))
				return
			}
			ms.All = true
			return
		}
		key := funcKey(callee)
		if ct := e.g.contracts[key]; ct != nil && ct.Modifies != nil {
			var pkg *types.Package
			if callee.Pkg != nil {
				pkg = callee.Pkg.Pkg
			} else if o := callee.Object(); o != nil {
				pkg = o.Pkg()
			}
			var names []string
			if len(callee.Params) > 0 {
				for _, p := range callee.Params {
					names = append(names, p.Name())
				}
			} else {
				if r := callee.Signature.Recv(); r != nil {
					names = append(names, r.Name())
				}
				for i := 0; i < callee.Signature.Params().Len(); i++ {
					names = append(names, callee.Signature.Params().At(i).Name())
				}
			}
			tys := make([]types.Type, len(c.Args))
			for i, v := range c.Args {
				tys[i] = v.Type()
			}
			ms.Union(ct.Modifies.ResolveAt(e.fx, pkg, names, c.Args, nil, tys))
			return
		}
		ms.Union(e.lookup(callee))
		// closures passed as arguments may be invoked by the callee
		for _, a := range c.Args {
			if mc, ok := a.(*ssa.MakeClosure); ok {
				ms.Union(e.lookup(mc.Fn.(*ssa.Function)))
			}
		}
	}
}

// addrWrites adds the heap array written by a store through address v.
func (e *Effects) addrWrites(tc *TypeCtx, v ssa.Value, ms *ModSet) {
	switch x := v.(type) {
	case *ssa.FieldAddr:
		// find the outermost struct reached through a pointer
		chain := []*ssa.FieldAddr{x}
		cur := x.X
		for {
			if fa, ok := cur.(*ssa.FieldAddr); ok {
				chain = append(chain, fa)
				cur = fa.X
				continue
			}
			break
		}
		top := chain[len(chain)-1]
		if ia, ok := cur.(*ssa.IndexAddr); ok {
			e.addrWrites(tc, ia, ms)
			return
		}
		if g, ok := cur.(*ssa.Global); ok {
			ms.Add(tc.GlobalKey(g))
			return
		}
		st := top.X.Type().Underlying().(*types.Pointer).Elem()
		si := tc.StructOf(st)
		if f := si.byIdx[top.Field]; f != nil {
			ms.Add(tc.FieldKey(si, f))
		}
	case *ssa.IndexAddr:
		switch u := x.X.Type().Underlying().(type) {
		case *types.Slice:
			ms.Add(tc.ElemKey(u.Elem()))
		case *types.Pointer:
			at := u.Elem().Underlying().(*types.Array)
			if inner, ok := x.X.(*ssa.FieldAddr); ok {
				e.addrWrites(tc, inner, ms)
				return
			}
			if g, ok := x.X.(*ssa.Global); ok {
				ms.Add(tc.GlobalKey(g))
				return
			}
			ms.Add(tc.ElemKey(at.Elem()))
		}
	case *ssa.Global:
		ms.Add(tc.GlobalKey(x))
	default:
		pt, ok := v.Type().Underlying().(*types.Pointer)
		if !ok {
			ms.All = true
			return
		}
		et := pt.Elem()
		if isStruct(et) {
			si := tc.StructOf(et)
			for _, f := range si.Fields {
				ms.Add(tc.FieldKey(si, f))
			}
			return
		}
		if at, ok := et.Underlying().(*types.Array); ok {
			ms.Add(tc.ElemKey(at.Elem()))
			return
		}
		ms.Add(tc.BoxKey(et))
	}
}

// Why explains which instructions make fn's write set unbounded (for contract authors).
func (e *Effects) Why(fn *ssa.Function, depth int, seen map[*ssa.Function]bool, out *[]string) {
	if seen[fn] || depth > 6 {
		return
	}
	seen[fn] = true
	for _, b := range fn.Blocks {
		for _, in := range b.Instrs {
			ms := NewModSet()
			func() {
				defer func() {
					if r := recover(); r != nil {
						ms.All = true
					}
				}()
				e.instrWrites(e.tc, fn, in, ms)
			}()
			if wk := os.Getenv("WHYKEY"); wk != "" {
				if !ms.Keys[wk] {
					continue
				}
			} else if !ms.All {
				continue
			}
			line := strings.Repeat("  ", depth) + funcKey(fn) + ": " + in.String()
			if ci, ok := in.(ssa.CallInstruction); ok {
				c := ci.Common()
				if c.IsInvoke() {
					line += "   [invoke " + ifaceMethodKey(c.Method) + "]"
				} else if sc := c.StaticCallee(); sc != nil {
					line += "   [" + funcKey(sc) + "]"
					*out = append(*out, line)
					if len(sc.Blocks) > 0 {
						e.Why(sc, depth+1, seen, out)
					}
					continue
				} else {
					line += "   [dynamic call]"
				}
			}
			*out = append(*out, line)
		}
	}
}
