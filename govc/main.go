package main

import (
	"flag"
	"fmt"
	"os"
	"path/filepath"
	"sort"
	"strings"
	"time"

	"golang.org/x/tools/go/ssa"
)

var extraCmds = map[string]func([]string) int{}

func verifDir() string {
	if d := os.Getenv("VERIF_DIR"); d != "" {
		return d
	}
	exe, err := os.Executable()
	if err == nil {
		d := filepath.Dir(filepath.Dir(exe))
		if _, err := os.Stat(filepath.Join(d, "properties.jsonl")); err == nil {
			return d
		}
	}
	return "/verif"
}

func repoDir() string {
	if d := os.Getenv("VERIF_REPO"); d != "" {
		return d
	}
	return "/repo"
}

func main() {
	if len(os.Args) < 2 {
		fmt.Fprintln(os.Stderr, "usage: govc func|dump|check|list ...")
		os.Exit(2)
	}
	switch os.Args[1] {
	case "func", "dump":
		fs := flag.NewFlagSet("func", flag.ExitOnError)
		slow := fs.Int("slow", 20, "slow solver limit (s)")
		keep := fs.Bool("keep", false, "keep SMT files")
		fs.Parse(os.Args[2:])
		t0 := time.Now()
		g, err := Load(repoDir(), verifDir())
		if err != nil {
			fmt.Fprintln(os.Stderr, "load:", err)
			os.Exit(2)
		}
		fmt.Printf("loaded in %.1fs, %d contracts, %d functions\n", time.Since(t0).Seconds(), len(g.contracts), len(g.funcs))
		for _, key := range fs.Args() {
			if _, ok := g.funcs[key]; !ok {
				var cands []string
				for k := range g.funcs {
					if strings.Contains(k, key) {
						cands = append(cands, k)
					}
				}
				sort.Strings(cands)
				fmt.Printf("no function %q; candidates: %v\n", key, cands)
				continue
			}
			obls, fx := g.VerifyFunction(key)
			if os.Args[1] == "dump" {
				if fx != nil {
					fmt.Println(fx.sc.Render(fx.sc.Pos(), TTrue, nil))
				}
				for _, o := range obls {
					fmt.Printf(";; OBL %s prefix=%d goal=%s err=%s\n", o.Name, o.Prefix, o.Goal.S, o.Err)
				}
				continue
			}
			dir := filepath.Join(verifDir(), ".work", "smt")
			res := DischargeAll(obls, dir, 5, *slow, 12)
			for _, r := range res {
				fmt.Printf("%-11s %-8s %6.2fs %-14s %s", r.Status, r.Answer, r.TimeS, r.Solver, r.Obl.Name)
				if r.Status != "discharged" {
					fmt.Printf("\n    clause: %s\n    at %s\n    %s", r.Obl.Text, r.Obl.Pos, firstLines(r.Output+r.Model, 12))
				}
				fmt.Println()
				if !*keep && r.Status == "discharged" && r.SMTFile != "" {
					os.Remove(r.SMTFile)
				}
			}
			if fx != nil {
				fmt.Printf("  loops=%d opaque=%v assumed=%v\n", len(fx.loopList), fx.opaque, keys(fx.assumed))
				for _, li := range fx.loopList {
					var cs []string
					for _, a := range li.cells {
						cs = append(cs, a.Comment)
					}
					fmt.Printf("  loop %d: cells=%v heap=%s\n", li.ordinal, cs, li.mods)
				}
				for k := range fx.opaque {
					if f := g.funcs[k]; f != nil {
						fmt.Printf("  writes(%s) = %s\n", k, g.eff.of(f))
					} else {
						fmt.Printf("  writes(%s) = %s (external)\n", k, g.eff.external(k))
					}
				}
			}
		}
	case "check":
		os.Exit(cmdCheck(os.Args[2:]))
	default:
		if f, ok := extraCmds[os.Args[1]]; ok {
			os.Exit(f(os.Args[2:]))
		}
		fmt.Fprintln(os.Stderr, "unknown command", os.Args[1])
		os.Exit(2)
	}
}

func keys(m map[string]bool) []string {
	var out []string
	for k := range m {
		out = append(out, k)
	}
	sort.Strings(out)
	return out
}

func firstLines(s string, n int) string {
	ls := strings.Split(strings.TrimSpace(s), "\n")
	if len(ls) > n {
		ls = ls[:n]
	}
	return strings.Join(ls, "\n    ")
}


func init() {
	extraCmds["warm"] = func(args []string) int {
		t0 := time.Now()
		g, err := Load(repoDir(), verifDir())
		if err != nil {
			fmt.Fprintln(os.Stderr, "load:", err)
			return 2
		}
		fmt.Printf("warm: loaded %d functions, %d contracts in %.1fs\n", len(g.funcs), len(g.contracts), time.Since(t0).Seconds())
		return 0
	}
	extraCmds["why"] = func(args []string) int {
		g, err := Load(repoDir(), verifDir())
		if err != nil {
			fmt.Fprintln(os.Stderr, "load:", err)
			return 2
		}
		for _, k := range args {
			f := g.funcs[k]
			if f == nil {
				fmt.Println("no function", k)
				continue
			}
			fmt.Printf("writes(%s) = %s\n", k, g.eff.of(f))
			var out []string
			g.eff.Why(f, 0, map[*ssa.Function]bool{}, &out)
			for _, l := range out {
				fmt.Println(l)
			}
		}
		return 0
	}
}
