package main

import (
	"context"
	"fmt"
	"go/types"
	"os"
	"strings"
)

func (x *sx) String() string {
	if !x.isList() {
		return x.atom
	}
	parts := make([]string, len(x.list))
	for i, e := range x.list {
		parts[i] = e.String()
	}
	return "(" + strings.Join(parts, " ") + ")"
}

// concreteClauseCheckHeap extends concreteClauseCheck to functions that take pointers, slices and
// structs but do not write memory visible to the caller (empty inferred write set): the post-state
// of such a call is its entry state. Every entry-state term the replay plan asked the solver about
// (parameters and every heap location used to build the Go inputs) is pinned to the value the inputs
// were built from, the results are pinned to what the REAL function returned (exact value for
// integers and booleans, nil-ness for errors, pointers, maps and slices), and the failed clause is
// evaluated. `unsat` means: on these inputs, with the outputs the real code produced, the clause is
// false whatever the unpinned rest is - a failing input for the real code.
func concreteClauseCheckHeap(o *Obligation, fx *FnExec, rp *replayPlan, outs string, log *strings.Builder) (reproduced, decided bool) {
	if o.Expr == nil || o.Kind != "ensures" || fx.fn == nil {
		return false, false
	}
	fn := fx.fn
	ms := fx.g.eff.of(fn)
	if ms == nil || ms.All || len(ms.Keys) > 0 || len(ms.At) > 0 {
		return false, false
	}
	var pins []string
	npinned := 0
	for i, q := range rp.queries {
		if i >= len(rp.vals) || q == "true" {
			continue
		}
		v := rp.vals[i].String()
		if strings.Contains(v, "as-array") || strings.Contains(v, "lambda") || strings.Contains(v, "(_ ") || strings.Contains(v, "!val!") {
			continue // array-valued or abstract-sort model values cannot be written back
		}
		pins = append(pins, fmt.Sprintf("(assert (= %s %s))", q, v))
		npinned++
	}
	rs := fn.Signature.Results()
	results := make([]Term, rs.Len())
	var shown []string
	for i := 0; i < rs.Len(); i++ {
		rt := rs.At(i).Type()
		srt := fx.tc.SortOf(rt)
		name := fmt.Sprintf("rr!%d", i)
		pins = append(pins, fmt.Sprintf("(declare-fun %s () %s)", name, srt))
		results[i] = Term{name, srt}
		get := func(marker string) (string, bool) {
			k := strings.Index(outs, marker)
			if k < 0 {
				return "", false
			}
			val := outs[k+len(marker):]
			return strings.TrimSpace(val[:strings.IndexByte(val, '\n')]), true
		}
		switch u := rt.Underlying().(type) {
		case *types.Basic:
			if u.Info()&(types.IsInteger|types.IsBoolean) == 0 {
				continue
			}
			val, ok := get(fmt.Sprintf("GOVC-RESULT %d val=", i))
			if !ok {
				return false, false
			}
			lit := val
			if strings.HasPrefix(val, "-") {
				lit = "(- " + val[1:] + ")"
			}
			pins = append(pins, fmt.Sprintf("(assert (= %s %s))", name, lit))
			shown = append(shown, fmt.Sprintf("result%d=%s", i, val))
		case *types.Interface:
			val, ok := get(fmt.Sprintf("GOVC-RESULT %d nil=", i))
			if !ok {
				return false, false
			}
			if val == "true" {
				pins = append(pins, fmt.Sprintf("(assert (= %s (mk-iface 0 0)))", name))
			} else {
				pins = append(pins, fmt.Sprintf("(assert (distinct (if.tag %s) 0))", name))
			}
			shown = append(shown, fmt.Sprintf("result%d nil=%s", i, val))
		case *types.Pointer, *types.Map:
			val, ok := get(fmt.Sprintf("GOVC-RESULT %d nil=", i))
			if !ok {
				return false, false
			}
			if val == "true" {
				pins = append(pins, fmt.Sprintf("(assert (= %s 0))", name))
			} else {
				pins = append(pins, fmt.Sprintf("(assert (> %s 0))", name))
			}
			shown = append(shown, fmt.Sprintf("result%d nil=%s", i, val))
		case *types.Slice:
			val, ok := get(fmt.Sprintf("GOVC-RESULT %d nil=", i))
			if !ok {
				return false, false
			}
			if val == "true" {
				pins = append(pins, fmt.Sprintf("(assert (= %s (mk-slice 0 0 0 0)))", name))
			} else {
				pins = append(pins, fmt.Sprintf("(assert (> (sl.base %s) 0))", name))
			}
			shown = append(shown, fmt.Sprintf("result%d nil=%s", i, val))
		}
	}
	var phi Term
	saved := fx.sc.body
	cut := fx.entryPos
	func() {
		defer func() {
			if r := recover(); r != nil {
				phi = Term{}
			}
		}()
		// evaluate the clause in the entry state (= post state of a call that writes nothing); whatever
		// the evaluation defines goes to the end of the script, after the truncated body
		fx.sc.body = append([]string(nil), fx.sc.body[:cut]...)
		env := fx.specEnv(fx.entry, fx.entry, nil, false)
		env.bindResults(fn.Signature, results)
		phi = env.EvalBool(o.Expr)
	}()
	defined := fx.sc.body
	fx.sc.body = saved
	if phi.S == "" {
		return false, false
	}
	// declarations (results) first, then what the evaluation defined, then the pins
	var decls, asserts []string
	for _, p := range pins {
		if strings.HasPrefix(p, "(declare-fun") {
			decls = append(decls, p)
		} else {
			asserts = append(asserts, p)
		}
	}
	body := append([]string(nil), defined[:cut]...)
	// symbols introduced later in the original script (lazily declared heap arrays of the entry epoch,
	// named sub-terms the pinned queries mention): their declarations and definitions, not the assumptions
	for _, l := range saved[cut:] {
		if strings.HasPrefix(l, "(declare-fun ") || strings.HasPrefix(l, "(define-fun ") || strings.HasPrefix(l, "(declare-datatypes ") || strings.HasPrefix(l, "(declare-sort ") {
			body = append(body, l)
		}
	}
	body = append(body, decls...)
	body = append(body, defined[cut:]...)
	body = append(body, asserts...)
	fx.sc.body = body
	text := fx.sc.Render(len(body), phi, nil)
	fx.sc.body = saved
	f, _ := os.CreateTemp("", "govc-concrete-*.smt2")
	f.WriteString(text)
	f.Close()
	defer os.Remove(f.Name())
	ans, sout, _ := runSolver(context.Background(), solvers[0], 20, f.Name())
	fmt.Fprintf(log, "concrete run of the real function (no caller-visible writes; %d entry-state values pinned to the inputs): %s\n", npinned, strings.Join(shown, " "))
	switch ans {
	case "unsat":
		// guard: the pins themselves must be consistent, otherwise `unsat` says nothing about the clause
		text0 := strings.Replace(text, "(assert "+phi.S+")\n(check-sat)", "(check-sat)", 1)
		f0, _ := os.CreateTemp("", "govc-concrete0-*.smt2")
		f0.WriteString(text0)
		f0.Close()
		defer os.Remove(f0.Name())
		a0, _, _ := runSolver(context.Background(), solvers[0], 20, f0.Name())
		if a0 != "sat" {
			fmt.Fprintf(log, "the pinned values could not be shown consistent (%s); no failing input is claimed\n", a0)
			return false, false
		}
		fmt.Fprintf(log, "REPRODUCED: the clause evaluates to false on these inputs and the outputs the real code returned\n")
		return true, true
	case "sat":
		fmt.Fprintf(log, "the clause can hold on this concrete run (it depends on state or abstract predicates the run does not fix); not reproduced\n")
		return false, true
	}
	fmt.Fprintf(log, "the concrete evaluation was not decided (%s): %s\n", ans, firstLines(sout, 3))
	return false, false
}
