package main

import (
	"fmt"
	"go/types"
	"strings"
)

// Unsupported is raised (via panic) when the generator meets a construct outside its subset.
type Unsupported struct{ Msg string }

func (u Unsupported) Error() string { return "unsupported: " + u.Msg }

func unsupported(format string, args ...any) {
	panic(Unsupported{fmt.Sprintf(format, args...)})
}

// TypeCtx maps Go types to SMT sorts for one script.
type TypeCtx struct {
	sc       *Script
	structs  map[string]*StructInfo // by sort name
	typeTags map[string]int
	tagTypes []types.Type
	strIDs   map[string]int
}

type StructInfo struct {
	Sort   string
	Ctor   string
	T      types.Type // the (possibly named) struct type
	St     *types.Struct
	Fields []*FieldInfo // modelled fields only
	byIdx  map[int]*FieldInfo
	byName map[string]*FieldInfo
}

type FieldInfo struct {
	Name string
	Idx  int // index in the Go struct
	Acc  string
	Sort string
	Type types.Type
}

func NewTypeCtx(sc *Script) *TypeCtx {
	return &TypeCtx{sc: sc, structs: map[string]*StructInfo{}, typeTags: map[string]int{}, strIDs: map[string]int{}}
}

func shortTypeName(t types.Type) string {
	return types.TypeString(t, func(p *types.Package) string {
		path := p.Path()
		path = strings.TrimPrefix(path, "github.com/canopy-network/canopy/")
		return path
	})
}

// skipField reports struct fields that are never modelled (protobuf runtime bookkeeping, locks).
func skipField(f *types.Var) bool {
	ts := f.Type().String()
	switch {
	case strings.Contains(ts, "protobuf/internal/impl."), strings.Contains(ts, "protoimpl."):
		return true
	case ts == "sync.Once" || ts == "sync.WaitGroup":
		return true
	case strings.HasPrefix(ts, "sync/atomic."):
		return true
	}
	switch f.Name() {
	case "state", "sizeCache", "unknownFields":
		if strings.Contains(ts, "proto") || ts == "int32" || ts == "[]byte" {
			// only skip when it really is the protobuf trio
			return strings.Contains(ts, "proto") || f.Name() != "state"
		}
	}
	return false
}

func (tc *TypeCtx) SortOf(t types.Type) string {
	switch u := t.Underlying().(type) {
	case *types.Basic:
		switch {
		case u.Info()&types.IsBoolean != 0:
			return SBool
		case u.Info()&types.IsInteger != 0:
			return SInt
		case u.Info()&types.IsString != 0:
			return SInt
		case u.Info()&types.IsFloat != 0:
			return SReal
		case u.Kind() == types.UnsafePointer, u.Kind() == types.UntypedNil:
			return SInt
		}
		unsupported("basic type %s", t)
	case *types.Pointer, *types.Map, *types.Chan, *types.Signature:
		return SInt
	case *types.Slice:
		return SSlice
	case *types.Interface:
		return SIface
	case *types.Struct:
		return tc.StructOf(t).Sort
	case *types.Array:
		return ArraySort(SInt, tc.SortOf(u.Elem()))
	case *types.Tuple:
		if u.Len() == 0 {
			return SBool
		}
		unsupported("tuple sort %s", t)
	case *types.TypeParam:
		unsupported("type parameter %s", t)
	}
	unsupported("type %s (%T)", t, t.Underlying())
	return ""
}

func (tc *TypeCtx) StructOf(t types.Type) *StructInfo {
	st, ok := t.Underlying().(*types.Struct)
	if !ok {
		unsupported("not a struct: %s", t)
	}
	var name string
	if _, isNamed := t.(*types.Named); isNamed {
		name = "S$" + sanitize(shortTypeName(t))
	} else if al, isAlias := t.(*types.Alias); isAlias {
		return tc.StructOf(types.Unalias(al))
	} else {
		name = "S$anon$" + sanitize(shortTypeName(st))
		if len(name) > 80 {
			name = fmt.Sprintf("%s$%d", name[:60], len(tc.structs))
		}
	}
	if si, ok := tc.structs[name]; ok {
		return si
	}
	si := &StructInfo{Sort: name, Ctor: "mk$" + name, T: t, St: st, byIdx: map[int]*FieldInfo{}, byName: map[string]*FieldInfo{}}
	tc.structs[name] = si // registered before recursion (recursion only through pointers = Int)
	for i := 0; i < st.NumFields(); i++ {
		f := st.Field(i)
		if skipField(f) {
			continue
		}
		fi := &FieldInfo{Name: f.Name(), Idx: i, Acc: name + "$" + sanitize(f.Name()), Type: f.Type()}
		fi.Sort = tc.SortOf(f.Type())
		si.Fields = append(si.Fields, fi)
		si.byIdx[i] = fi
		si.byName[f.Name()] = fi
	}
	var sb strings.Builder
	fmt.Fprintf(&sb, "(declare-datatypes ((%s 0)) (((%s", name, si.Ctor)
	for _, f := range si.Fields {
		fmt.Fprintf(&sb, " (%s %s)", f.Acc, f.Sort)
	}
	sb.WriteString("))))")
	// struct sorts are declared at render time from this process-wide registry (heap keys, and
	// with them sorts, are shared between the per-function scripts and the effect analysis)
	structDeclMu.Lock()
	structDecls[name] = sb.String()
	structDeclMu.Unlock()
	return si
}

// Mk builds a struct value from field terms (in Fields order).
func (si *StructInfo) Mk(vals []Term) Term {
	if len(si.Fields) == 0 {
		return Term{si.Ctor, si.Sort}
	}
	return App(si.Ctor, si.Sort, vals...)
}

func (si *StructInfo) Get(v Term, f *FieldInfo) Term {
	return App(f.Acc, f.Sort, v)
}

// With returns v with field f replaced by nv.
func (si *StructInfo) With(v Term, f *FieldInfo, nv Term) Term {
	vals := make([]Term, len(si.Fields))
	for i, g := range si.Fields {
		if g == f {
			vals[i] = nv
		} else {
			vals[i] = si.Get(v, g)
		}
	}
	return si.Mk(vals)
}

func (tc *TypeCtx) Zero(t types.Type) Term {
	switch u := t.Underlying().(type) {
	case *types.Basic:
		switch {
		case u.Info()&types.IsBoolean != 0:
			return TFalse
		case u.Info()&types.IsString != 0:
			return tc.StrConst("")
		case u.Info()&types.IsFloat != 0:
			return Term{"0.0", SReal}
		}
		return TZero
	case *types.Pointer, *types.Map, *types.Chan, *types.Signature:
		return TZero
	case *types.Slice:
		return Term{"(mk-slice 0 0 0 0)", SSlice}
	case *types.Interface:
		return Term{"(mk-iface 0 0)", SIface}
	case *types.Struct:
		si := tc.StructOf(t)
		vals := make([]Term, len(si.Fields))
		for i, f := range si.Fields {
			vals[i] = tc.Zero(f.Type)
		}
		return si.Mk(vals)
	case *types.Array:
		es := tc.SortOf(u.Elem())
		return Term{fmt.Sprintf("((as const %s) %s)", ArraySort(SInt, es), tc.Zero(u.Elem()).S), ArraySort(SInt, es)}
	}
	unsupported("zero of %s", t)
	return Term{}
}

// StrConst interns a string constant; distinct constants get distinct (negative) ids, "" is 0.
func (tc *TypeCtx) StrConst(s string) Term {
	if s == "" {
		return TZero
	}
	id, ok := tc.strIDs[s]
	if !ok {
		id = len(tc.strIDs) + 1
		tc.strIDs[s] = id
		tc.sc.Declare("strlen", "(declare-fun strlen (Int) Int)")
		tc.sc.Declare(fmt.Sprintf("strconst:%d", id), fmt.Sprintf("(assert (= (strlen (- %d)) %d)) ; %q", id, len(s), truncate(s, 40)))
	}
	return IntLit(int64(-id))
}

func truncate(s string, n int) string {
	s = strings.Map(func(r rune) rune {
		if r < 32 || r > 126 {
			return '?'
		}
		return r
	}, s)
	if len(s) > n {
		return s[:n]
	}
	return s
}

// TypeTag returns the interface type tag for a concrete dynamic type (1-based; 0 is nil).
func (tc *TypeCtx) TypeTag(t types.Type) int {
	key := types.TypeString(t, nil)
	if id, ok := tc.typeTags[key]; ok {
		return id
	}
	id := len(tc.typeTags) + 1
	tc.typeTags[key] = id
	tc.tagTypes = append(tc.tagTypes, t)
	return id
}

func intRange(b *types.Basic) (lo, hi string, ok bool) {
	switch b.Kind() {
	case types.Int8:
		return "(- 128)", "127", true
	case types.Int16:
		return "(- 32768)", "32767", true
	case types.Int32:
		return "(- 2147483648)", "2147483647", true
	case types.Int, types.Int64:
		return "(- 9223372036854775808)", "9223372036854775807", true
	case types.Uint8:
		return "0", "255", true
	case types.Uint16:
		return "0", "65535", true
	case types.Uint32:
		return "0", "4294967295", true
	case types.Uint, types.Uint64, types.Uintptr:
		return "0", "18446744073709551615", true
	}
	return "", "", false
}

// WellTyped returns the type invariant of a value of Go type t (integer ranges, slice header
// sanity), looking through struct fields to a small depth. Heap contents are not covered here;
// they are constrained when loaded.
func (tc *TypeCtx) WellTyped(v Term, t types.Type, depth int) Term {
	switch u := t.Underlying().(type) {
	case *types.Basic:
		if lo, hi, ok := intRange(u); ok {
			return Term{fmt.Sprintf("(and (<= %s %s) (<= %s %s))", lo, v.S, v.S, hi), SBool}
		}
		if u.Info()&types.IsString != 0 {
			tc.sc.Declare("strlen", "(declare-fun strlen (Int) Int)")
			return Term{fmt.Sprintf("(and (>= (strlen %s) 0) (= (= %s 0) (= (strlen %s) 0)))", v.S, v.S, v.S), SBool}
		}
	case *types.Pointer, *types.Map, *types.Chan:
		return Term{fmt.Sprintf("(>= %s 0)", v.S), SBool}
	case *types.Slice:
		return Term{fmt.Sprintf("(and (>= (sl.base %s) 0) (>= (sl.off %s) 0) (>= (sl.len %s) 0) (<= (sl.len %s) (sl.cap %s)) (<= (sl.cap %s) 281474976710656) (=> (= (sl.base %s) 0) (= (sl.cap %s) 0)))", v.S, v.S, v.S, v.S, v.S, v.S, v.S, v.S), SBool}
	case *types.Interface:
		return Term{fmt.Sprintf("(and (>= (if.tag %s) 0) (=> (= (if.tag %s) 0) (= (if.val %s) 0)))", v.S, v.S, v.S), SBool}
	case *types.Struct:
		if depth <= 0 {
			return TTrue
		}
		si := tc.StructOf(t)
		var cs []Term
		for _, f := range si.Fields {
			cs = append(cs, tc.WellTyped(si.Get(v, f), f.Type, depth-1))
		}
		return And(cs...)
	}
	return TTrue
}
