package main

import (
	"fmt"
	"go/types"

	"golang.org/x/tools/go/ssa"
)

type PtrKind int

const (
	PCell   PtrKind = iota // a non-escaping local variable
	PHeap                  // an object on the heap, identified by Ref
	PElem                  // an element of a backing array: Ref = base, Idx = absolute index
	PGlobal                // a package-level variable
)

type Sel struct {
	SI    *StructInfo
	Field *FieldInfo
	Index *Term // array index (for [N]T values)
	ElemT types.Type
}

// Ptr is an address resolved at generation time: a root location plus a selector path.
type Ptr struct {
	Kind PtrKind
	Cell *ssa.Alloc
	Ref  Term
	Idx  Term
	Key  string     // PGlobal: heap key
	ObjT types.Type // type of the root object
	Path []Sel
	T    types.Type // type of the location denoted (after Path)
}

func (p *Ptr) extend(s Sel, t types.Type) *Ptr {
	n := *p
	n.Path = append(append([]Sel(nil), p.Path...), s)
	n.T = t
	return &n
}

func (tc *TypeCtx) FieldKey(si *StructInfo, f *FieldInfo) string {
	return registerHeapKey("H$"+si.Sort[2:]+"$"+sanitize(f.Name), ArraySort(SInt, f.Sort))
}

// ElemKey names the storage of backing arrays with element type elem. Backing arrays are kept
// apart by Go element type (a []byte can never alias a []*T without unsafe).
func (tc *TypeCtx) ElemKey(elem types.Type) string {
	es := tc.SortOf(elem)
	return registerHeapKey("E$"+canonElemName(elem), ArraySort(SInt, ArraySort(SInt, es)))
}

func canonElemName(t types.Type) string {
	t = types.Unalias(t)
	if b, ok := t.(*types.Basic); ok {
		switch b.Kind() {
		case types.Uint8:
			return "uint8"
		case types.Int32:
			return "int32"
		}
		return b.Name()
	}
	return sanitize(shortTypeName(t))
}

func (tc *TypeCtx) BoxKey(t types.Type) string {
	s := tc.SortOf(t)
	return registerHeapKey("B$"+sanitize(s), ArraySort(SInt, s))
}

func (tc *TypeCtx) MapKeys(m *types.Map) (dom, val string) {
	ks, vs := tc.SortOf(m.Key()), tc.SortOf(m.Elem())
	dom = registerHeapKey("MD$"+sanitize(ks)+"$"+sanitize(vs), ArraySort(SInt, ArraySort(ks, SBool)))
	val = registerHeapKey("MV$"+sanitize(ks)+"$"+sanitize(vs), ArraySort(SInt, ArraySort(ks, vs)))
	return
}

func (tc *TypeCtx) GlobalKey(g *ssa.Global) string {
	et := g.Type().(*types.Pointer).Elem()
	pk := "?"
	if g.Pkg != nil {
		pk = shortPkg(g.Pkg.Pkg.Path())
	}
	prefix := "G$"
	if immutableGlobals[g] {
		prefix = "GI$" // never reassigned after package initialisation: one value in every state
	}
	return registerHeapKey(prefix+sanitize(pk+"."+g.Name()), tc.SortOf(et))
}

// immutableGlobals is filled by Gen.computeImmutableGlobals.
var immutableGlobals = map[*ssa.Global]bool{}

// project reads through a selector path starting at value v.
func (fx *FnExec) project(v Term, path []Sel) Term {
	for _, s := range path {
		if s.Field != nil {
			v = s.SI.Get(v, s.Field)
		} else {
			v = Select(v, *s.Index)
		}
	}
	return v
}

// inject returns root with the location at path replaced by nv.
func (fx *FnExec) inject(root Term, path []Sel, nv Term) Term {
	if len(path) == 0 {
		return nv
	}
	s := path[0]
	if s.Field != nil {
		inner := fx.inject(s.SI.Get(root, s.Field), path[1:], nv)
		return s.SI.With(root, s.Field, inner)
	}
	inner := fx.inject(Select(root, *s.Index), path[1:], nv)
	return Store(root, *s.Index, inner)
}

func isStruct(t types.Type) bool {
	_, ok := t.Underlying().(*types.Struct)
	return ok
}

func isArray(t types.Type) bool {
	_, ok := t.Underlying().(*types.Array)
	return ok
}

// Load reads the location p in state st.
func (fx *FnExec) Load(st *State, p *Ptr) Term {
	switch p.Kind {
	case PCell:
		v, ok := st.cells[p.Cell]
		if !ok {
			unsupported("read of cell %s (%s) before its allocation on this path", p.Cell.Name(), p.Cell.Comment)
		}
		return fx.project(v, p.Path)
	case PGlobal:
		return fx.project(fx.Heap(st, p.Key), p.Path)
	case PElem:
		key := fx.tc.ElemKey(p.ObjT)
		v := Select(Select(fx.Heap(st, key), p.Ref), p.Idx)
		return fx.project(v, p.Path)
	case PHeap:
		fx.needNonNil(st, p.Ref, "load")
		if isStruct(p.ObjT) {
			si := fx.tc.StructOf(p.ObjT)
			if len(p.Path) > 0 && p.Path[0].Field != nil {
				f := p.Path[0].Field
				v := Select(fx.Heap(st, fx.tc.FieldKey(si, f)), p.Ref)
				return fx.project(v, p.Path[1:])
			}
			vals := make([]Term, len(si.Fields))
			for i, f := range si.Fields {
				vals[i] = Select(fx.Heap(st, fx.tc.FieldKey(si, f)), p.Ref)
			}
			return si.Mk(vals)
		}
		if at, ok := p.ObjT.Underlying().(*types.Array); ok {
			key := fx.tc.ElemKey(at.Elem())
			return fx.project(Select(fx.Heap(st, key), p.Ref), p.Path)
		}
		key := fx.tc.BoxKey(p.ObjT)
		return fx.project(Select(fx.Heap(st, key), p.Ref), p.Path)
	}
	panic("bad ptr kind")
}

// StoreTo writes nv to location p in state st.
func (fx *FnExec) StoreTo(st *State, p *Ptr, nv Term) {
	switch p.Kind {
	case PCell:
		if len(p.Path) == 0 {
			st.cells[p.Cell] = nv
			return
		}
		root, ok := st.cells[p.Cell]
		if !ok {
			unsupported("write to cell %s before its allocation", p.Cell.Name())
		}
		st.cells[p.Cell] = fx.sc.Define("c$"+p.Cell.Comment, fx.inject(root, p.Path, nv))
	case PGlobal:
		fx.SetHeap(st, p.Key, fx.inject(fx.Heap(st, p.Key), p.Path, nv))
	case PElem:
		key := fx.tc.ElemKey(p.ObjT)
		h := fx.Heap(st, key)
		arr := Select(h, p.Ref)
		ne := fx.inject(Select(arr, p.Idx), p.Path, nv)
		fx.SetHeap(st, key, Store(h, p.Ref, Store(arr, p.Idx, ne)))
	case PHeap:
		fx.needNonNil(st, p.Ref, "store")
		if isStruct(p.ObjT) {
			si := fx.tc.StructOf(p.ObjT)
			if len(p.Path) > 0 && p.Path[0].Field != nil {
				f := p.Path[0].Field
				key := fx.tc.FieldKey(si, f)
				h := fx.Heap(st, key)
				fx.SetHeap(st, key, Store(h, p.Ref, fx.inject(Select(h, p.Ref), p.Path[1:], nv)))
				return
			}
			for _, f := range si.Fields {
				key := fx.tc.FieldKey(si, f)
				fx.SetHeap(st, key, Store(fx.Heap(st, key), p.Ref, si.Get(nv, f)))
			}
			return
		}
		var key string
		if at, ok := p.ObjT.Underlying().(*types.Array); ok {
			key = fx.tc.ElemKey(at.Elem())
		} else {
			key = fx.tc.BoxKey(p.ObjT)
		}
		h := fx.Heap(st, key)
		fx.SetHeap(st, key, Store(h, p.Ref, fx.inject(Select(h, p.Ref), p.Path, nv)))
	}
}

// HavocLoc forgets the content of location p (used when its address is handed to a callee).
func (fx *FnExec) HavocLoc(st *State, p *Ptr) {
	v := fx.sc.Fresh("havoc", fx.tc.SortOf(p.T))
	fx.sc.Assume(fx.tc.WellTyped(v, p.T, 2))
	fx.StoreTo(st, p, v)
}

// PtrTerm encodes a resolved pointer as an Int term (object references are plain; interior
// pointers become injective uninterpreted terms that can be compared but not dereferenced).
func (fx *FnExec) PtrTerm(p *Ptr) Term {
	switch p.Kind {
	case PHeap:
		if len(p.Path) == 0 {
			return p.Ref
		}
		name := "iptr"
		args := []Term{p.Ref}
		for _, s := range p.Path {
			if s.Field != nil {
				name += "$" + sanitize(s.Field.Name)
			} else {
				name += "$i"
				args = append(args, *s.Index)
			}
		}
		name = fmt.Sprintf("%s$%d", name, len(args))
		decl := "(declare-fun " + name + " ("
		for range args {
			decl += "Int "
		}
		decl += ") Int)"
		fx.sc.Declare("uf:"+name, decl)
		t := App(name, SInt, args...)
		fx.sc.Assume(App(">", SBool, t, TZero))
		return t
	case PElem:
		fx.sc.Declare("uf:eptr", "(declare-fun eptr (Int Int) Int)")
		t := App("eptr", SInt, p.Ref, p.Idx)
		fx.sc.Assume(App(">", SBool, t, TZero))
		return t
	case PCell:
		fx.sc.Declare("uf:cellptr", "(declare-fun cellptr (Int) Int)")
		t := App("cellptr", SInt, IntLit(int64(fx.cellID(p.Cell))))
		fx.sc.Assume(App(">", SBool, t, TZero))
		return t
	case PGlobal:
		fx.sc.Declare("uf:globalptr$"+p.Key, "(declare-fun globalptr$"+p.Key+" () Int)")
		t := Term{"globalptr$" + p.Key, SInt}
		fx.sc.Assume(App(">", SBool, t, TZero))
		return t
	}
	panic("bad ptr")
}

func (fx *FnExec) cellID(a *ssa.Alloc) int {
	if id, ok := fx.cellIDs[a]; ok {
		return id
	}
	id := len(fx.cellIDs) + 1
	fx.cellIDs[a] = id
	return id
}
