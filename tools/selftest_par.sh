#!/bin/sh
# Parallel must-fail corpus: like selftest.sh, but the corpus is dealt round-robin to N shards (default 3), each with a
# scratch worktree of its own; solver limits are CPU-time limits, so verdicts do not depend on the load.
# usage: [LIST=file-with-patch-paths] tools/selftest_par.sh [N]   (LIST: run these patches, in this order, instead of the whole corpus)
cd /verif
N=${1:-3}
mkdir -p .work
CLAIMED=$(python3 -c "import json;print(' '.join(c['property_id'] for c in json.load(open('MANIFEST.json'))['checks']))")
if [ -n "$LIST" ]; then cp "$LIST" .work/selftest.list; else ls selftest/*.diff seeded/*/patch.diff > .work/selftest.list; fi
i=0
while [ $i -lt $N ]; do
  (
    WT=$(mktemp -d /tmp/govc-selftest.XXXXXX); rmdir "$WT"
    git -C /repo worktree add -q --detach "$WT" HEAD || exit 2
    awk -v n=$N -v k=$i 'NR % n == k' .work/selftest.list | while read f; do
      case "$f" in
        selftest/*) PID=$(basename "$f" | cut -d_ -f1);;
        *) PID=$(basename $(dirname "$f") | cut -c1-3);;
      esac
      echo " $CLAIMED " | grep -q " $PID " || { echo "SKIP  $f ($PID not claimed)"; continue; }
      git -C "$WT" checkout -q -- .
      if ! git -C "$WT" apply "/verif/$f" 2>/dev/null; then echo "NOAPPLY $f"; continue; fi
      OUT=$(VERIF_REPO="$WT" VERIF_EVIDENCE_DIR="$WT/.evidence" ./bin/govc check $PID --tier quick 2>&1)
      if echo "$OUT" | grep -q "^VIOLATION property=$PID"; then
        echo "CAUGHT $f: $(echo "$OUT" | grep '^VIOLATION' | head -3 | sed 's/.*obligation=//' | tr '\n' ';')"
      else
        echo "MISSED $f"
      fi
    done
    git -C /repo worktree remove --force "$WT" 2>/dev/null; rm -rf "$WT"
  ) > .work/selftest.shard$i.out 2>&1 &
  i=$((i+1))
done
wait
cat .work/selftest.shard*.out | sort > .work/selftest.out
echo "selftest: $(grep -c '^CAUGHT' .work/selftest.out) caught, missed=$(grep -c '^MISSED' .work/selftest.out), noapply=$(grep -c '^NOAPPLY' .work/selftest.out)"
grep '^MISSED\|^NOAPPLY' .work/selftest.out
