#!/bin/sh
# run every claimed check (quick tier) and summarise
cd /verif
for p in $(python3 -c "import json;print(' '.join(c['property_id'] for c in json.load(open('MANIFEST.json'))['checks']))"); do
  ./bin/govc check $p --tier quick 2>&1 | grep -v "^NOTE" | tail -4
done
