cd /verif
WT=$(mktemp -d /tmp/govc-rf.XXXXXX); rmdir "$WT"
git -C /repo worktree add -q --detach "$WT" HEAD || exit 2
CLAIMED=$(python3 -c "import json;print(' '.join(c['property_id'] for c in json.load(open('MANIFEST.json'))['checks']))")
for d in refactors/*; do
  git -C "$WT" checkout -q -- . ; git -C "$WT" clean -fdq
  git -C "$WT" apply "/verif/$d/patch.diff" || { echo "NOAPPLY $d"; continue; }
  for PID in $CLAIMED; do
    OUT=$(VERIF_REPO="$WT" VERIF_EVIDENCE_DIR="$WT/.evidence" ./bin/govc check $PID --tier quick 2>&1)
    if echo "$OUT" | grep -q "^VIOLATION"; then echo "ALARM $d on $PID: $(echo "$OUT" | grep '^VIOLATION' | head -4 | sed 's/.*obligation=//' | tr '\n' ';')"; fi
  done
  echo "done $d"
done
git -C /repo worktree remove --force "$WT"
