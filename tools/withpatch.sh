#!/bin/sh
# usage: tools/withpatch.sh <patch.diff> <command...>
# Applies a patch to /repo (which must be clean), runs the command, and always reverts the patch.
set -u
P="$1"; shift
if [ -n "$(git -C /repo status --porcelain)" ]; then echo "refusing: /repo has uncommitted changes" >&2; exit 3; fi
git -C /repo apply "$P" || { echo "patch does not apply" >&2; exit 3; }
# evidence and replays of runs on a patched tree never land in /verif/evidence
VERIF_EVIDENCE_DIR="${VERIF_EVIDENCE_DIR:-/tmp/govc-mutant-out}" "$@"; rc=$?
git -C /repo apply -R "$P" || git -C /repo checkout -- .
exit $rc
