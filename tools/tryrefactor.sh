#!/bin/sh
# usage: tryrefactor.sh <abs patch.diff> [PIDs...] ; applies a behaviour-preserving patch on a scratch worktree (with /repo's
# CURRENT contract files) and runs the checks (all claimed ones by default), 4 at a time; prints ALARM lines only
cd /verif
P=$1; shift
WT=$(mktemp -d /tmp/govc-tr.XXXXXX); rmdir "$WT"
git -C /repo worktree add -q --detach "$WT" HEAD || exit 2
(cd /repo && find . -name zz_contracts_verif.go | while read f; do cp $f $WT/$f; done)
git -C "$WT" apply "$P" || echo "NOAPPLY $P"
PIDS=${*:-$(python3 -c "import json;print(' '.join(c['property_id'] for c in json.load(open('MANIFEST.json'))['checks']))")}
for PID in $PIDS; do echo $PID; done | xargs -P 4 -I{} sh -c '
  OUT=$(VERIF_REPO='"$WT"' VERIF_EVIDENCE_DIR='"$WT"'/.evidence.{} ./bin/govc check {} --tier quick 2>&1)
  if echo "$OUT" | grep -q "^VIOLATION"; then echo "ALARM '"$P"' on {}: $(echo "$OUT" | grep "^VIOLATION" | head -4 | sed "s/.*obligation=//" | tr "\n" ";")"; fi'
echo "done $P"
git -C /repo worktree remove --force "$WT"
