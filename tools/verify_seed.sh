#!/bin/sh
# usage: tools/verify_seed.sh <ID> <srcdir>
# Confirms a seeded change: demo fails with the patch, passes without it, package tests still pass.
# Works in a scratch worktree outside /repo and /verif and removes it afterwards.
set -u
ID="$1"; SRC="$2"
DST=/verif/seeded/$ID
mkdir -p "$DST"
cp "$SRC/patch.diff" "$SRC/meta.json" "$DST/" 2>/dev/null
cp "$SRC"/zz_seeded_demo_test.go "$DST/" 2>/dev/null
PKG=$(python3 -c "import json;print(json.load(open('$DST/meta.json'))['demo_pkg_dir'])")
TEST=$(python3 -c "import json;print(json.load(open('$DST/meta.json'))['demo_test'])")
WT=/tmp/sv/$ID
rm -rf "$WT"; mkdir -p /tmp/sv
git -C /repo worktree add -q --detach "$WT" HEAD || exit 2
cd "$WT" || exit 2
R=""
if ! git apply "$DST/patch.diff"; then echo "PATCH DOES NOT APPLY to current HEAD"; R="noapply"; fi
if [ -z "$R" ]; then
  cp "$DST/zz_seeded_demo_test.go" "$WT/$PKG/"
  echo "== demo WITH patch (expect FAIL)"
  (cd "$WT/$PKG" && GOFLAGS=-mod=mod go test -vet=off -count=1 -timeout 300s -run "^$TEST\$" . 2>&1 | tail -4)
  rm "$WT/$PKG/zz_seeded_demo_test.go"
  echo "== existing tests of ./$PKG WITH patch (expect ok)"
  (cd "$WT/$PKG" && GOFLAGS=-mod=mod go test -vet=off -count=1 -timeout 600s . 2>&1 | tail -2)
  git checkout -q -- . ; git apply -R "$DST/patch.diff" 2>/dev/null
  git checkout -q -- .
  cp "$DST/zz_seeded_demo_test.go" "$WT/$PKG/"
  echo "== demo WITHOUT patch (expect ok)"
  (cd "$WT/$PKG" && GOFLAGS=-mod=mod go test -vet=off -count=1 -timeout 300s -run "^$TEST\$" . 2>&1 | tail -2)
fi
cd /
git -C /repo worktree remove --force "$WT"
