#!/bin/sh
# Must-fail corpus: every patch under selftest/ (own mutants, named <PID>_*.diff) and seeded/<PID>/patch.diff
# is applied to a scratch worktree of /repo (outside /repo and /verif), the property's check is run
# against it (VERIF_REPO), and it must report a VIOLATION. The scratch tree is removed afterwards.
# usage: tools/selftest.sh [PID ...]
cd /verif
WT=$(mktemp -d /tmp/govc-selftest.XXXXXX)
rmdir "$WT"
git -C /repo worktree add -q --detach "$WT" HEAD || exit 2
trap 'git -C /repo worktree remove --force "$WT" 2>/dev/null; rm -rf "$WT"' EXIT
FAIL=0; N=0
CLAIMED=$(python3 -c "import json;print(' '.join(c['property_id'] for c in json.load(open('MANIFEST.json'))['checks']))")
for f in selftest/*.diff seeded/*/patch.diff; do
  [ -f "$f" ] || continue
  case "$f" in
    selftest/*) PID=$(basename "$f" | cut -d_ -f1);;
    *) PID=$(basename $(dirname "$f") | cut -c1-3);;
  esac
  if [ $# -gt 0 ]; then echo " $* " | grep -q " $PID " || continue; fi
  echo " $CLAIMED " | grep -q " $PID " || { echo "SKIP  $f ($PID not claimed)"; continue; }
  git -C "$WT" checkout -q -- . 
  if ! git -C "$WT" apply "/verif/$f" 2>/dev/null; then echo "NOAPPLY $f"; continue; fi
  N=$((N+1))
  OUT=$(VERIF_REPO="$WT" VERIF_EVIDENCE_DIR="$WT/.evidence" ./bin/govc check $PID --tier quick 2>&1)
  if echo "$OUT" | grep -q "^VIOLATION property=$PID"; then
    echo "CAUGHT $f: $(echo "$OUT" | grep '^VIOLATION' | head -3 | sed 's/.*obligation=//' | tr '\n' ';')"
  else
    echo "MISSED $f"; FAIL=1
  fi
done
echo "selftest: $N mutants run, missed=$FAIL"
exit $FAIL
