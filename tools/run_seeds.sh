cd /verif # usage: SUFFIX=<b|c|d|e|f> sh tools/run_seeds.sh
WT=$(mktemp -d /tmp/govc-sb.XXXXXX); rmdir "$WT"
git -C /repo worktree add -q --detach "$WT" HEAD || exit 2
for d in seeded/*${SUFFIX:-b}; do
  PID=$(basename $d | cut -c1-3)
  git -C "$WT" checkout -q -- .
  git -C "$WT" apply "/verif/$d/patch.diff" || { echo "NOAPPLY $d"; continue; }
  OUT=$(VERIF_REPO="$WT" VERIF_EVIDENCE_DIR="$WT/.evidence" ./bin/govc check $PID --tier quick 2>&1)
  if echo "$OUT" | grep -q "^VIOLATION property=$PID"; then echo "CAUGHT $d: $(echo "$OUT" | grep '^VIOLATION' | head -3 | sed 's/.*obligation=//' | tr '\n' ';')"; else echo "MISSED $d"; fi
done
git -C /repo worktree remove --force "$WT"
