#!/usr/bin/env python3
"""Regenerate seeded/RESULTS.md from the output of the last complete must-fail run
(tools/selftest.sh > file, or tools/selftest_par.sh which leaves .work/selftest.out).
usage: tools/mkresults.py [selftest-output-file]"""
import json, os, re, sys

src = sys.argv[1] if len(sys.argv) > 1 else '/verif/.work/selftest.out'
rows, caught, missed = [], 0, 0
for line in open(src):
    m = re.match(r'^(CAUGHT|MISSED|NOAPPLY|SKIP)\s+(\S+?)(?::\s*(.*))?$', line.rstrip('\n'))
    if not m:
        continue
    res, path, obl = m.group(1), m.group(2), (m.group(3) or '')
    what = ''
    if path.startswith('seeded/'):
        meta = os.path.join('/verif', os.path.dirname(path), 'meta.json')
        try:
            what = json.load(open(meta)).get('summary', '')
        except Exception:
            what = ''
    else:
        what = os.path.basename(path)[4:-5].replace('_', ' ')
    what = ' '.join(what.split())
    if len(what) > 260:
        what = what[:257] + '...'
    obls = [o.strip().replace(' no-failing-input-found', '') for o in obl.split(';') if o.strip()]
    rows.append((path, res, '; '.join('`%s`' % o for o in obls[:3]), what.replace('|', '/')))
    caught += res == 'CAUGHT'
    missed += res == 'MISSED'
rows.sort()
with open('/verif/seeded/RESULTS.md', 'w') as f:
    f.write('# Must-fail corpus: last complete run\n\n')
    f.write('Every patch below (own mutants under `selftest/`, seeded changes under `seeded/<id>/`) is applied to a scratch '
            'worktree of /repo and the quick check of its property is run against it; `CAUGHT` = the check printed a '
            'VIOLATION line for that property (first obligations shown). Produced by `tools/selftest_par.sh` + '
            '`tools/mkresults.py`.\n\n')
    f.write('**%d patches: %d caught, %d missed.**\n\n' % (len(rows), caught, missed))
    f.write('| patch | result | failing obligations (first three) | what the change does |\n|---|---|---|---|\n')
    for r in rows:
        f.write('| %s | %s | %s | %s |\n' % r)
print('%d rows, %d caught, %d missed' % (len(rows), caught, missed))
