#!/usr/bin/env python3
"""Regenerate /verif/MANIFEST.json from spec/properties.json and the static tables below."""
import json, os, subprocess, sys

V = os.path.dirname(os.path.dirname(os.path.abspath(__file__)))
props = json.load(open(os.path.join(V, "spec", "properties.json")))
base = json.load(open("/root/.vp/BASELINE.json"))

NOT_APPLICABLE = {
    "C03": "determinism is a relation between two executions (propose/validate/commit/replay paths, goroutine schedules, map orders, cache contents); a function contract speaks about one execution, and in the generator's semantics every modelled function is already a function of its inputs - the sources of divergence (8-way parallel tree commit, process-wide caches, per-process MemHash) are exactly what the verified subset excludes",
    "C09": "the quantifier ranges over crash instants and surviving subsets of unsynced file-system writes inside pebble's WAL/NoSync machinery; no contract on canopy functions states or decides that, and pebble's batch atomicity would have to be assumed wholesale",
    "C11": "cross-node portability depends on protobuf re-marshalling reproducing certified bytes and on two nodes' full pipelines agreeing: external-library behaviour plus a relational claim; the only contract that could carry it (Unmarshal accepts canonical encodings only) is unprovable from Go source",
    "C15": "liveness under eventual synchrony is temporal, multi-node and timer-driven; deductive contracts give partial correctness of single calls only",
}
PENDING = "contracts for this property are not yet in place in this revision (see DESIGN.md section 4 for the plan); it is not claimed until its obligations discharge"

LEVEL_TEXT = {
    "proof": "every obligation generated from the current /repo source for the functions under contract (pre/postconditions, loop invariants, call-site preconditions, frames) is discharged by an SMT solver for all inputs, with exact 64-bit integer semantics; a failing obligation is reported by name with the solver's model",
    "exploration": "a labelled BOUNDED STAND-IN, not a proof: the real code is run over a stated finite/random space and an oracle is checked; used only where no contract within the generator's reach can carry the property",
    "other": "contract obligations discharged by SMT for the functions listed in the evidence, plus labelled bounded stand-ins (never counted as proved) for the part no contract within reach can carry",
}

all_ids = [json.loads(l)["id"] for l in open(os.path.join(V, "properties.jsonl"))]
claimed = {p["id"]: p for p in props}

hooks_commits = []
try:
    out = subprocess.check_output(["git", "-C", "/repo", "log", "--format=%H %s"], text=True)
    for line in out.splitlines():
        h, s = line.split(" ", 1)
        if s.startswith("verif hooks"):
            hooks_commits.append(h)
except Exception:
    pass

checks = []
for pid in all_ids:
    if pid not in claimed:
        continue
    p = claimed[pid]
    level = p.get("level", "proof")
    checks.append({
        "property_id": pid,
        "quick_cmd": f"bin/govc check {pid} --tier quick",
        "thorough_cmd": f"bin/govc check {pid} --tier thorough",
        "evidence_file": f"/verif/evidence/{pid}.json",
        "replay_cmd_template": "cat {path}",
        "engine": "govc",
        "level_claimed": {
            "category": level,
            "text": LEVEL_TEXT.get(level, LEVEL_TEXT["proof"]) + ". Scope: " + p.get("claim", ""),
            "design_ref": "DESIGN.md section 4 (" + pid + ")",
        },
        "level_note": "trusted: go/ssa faithfulness, the govc VC generator, the SMT solvers, and the assumed contracts on external code listed in the evidence (crypto primitives, protobuf, math/big, stdlib); not decided: " + "; ".join(p.get("not_decided", []) or ["see DESIGN.md"]),
        "technique": p.get("technique", "contract-based deductive verification: weakest-precondition VCs generated from go/ssa of the real code, contracts in build-tagged comment files, discharged by z3/cvc5"),
    })

na = []
for pid in all_ids:
    if pid in claimed:
        continue
    na.append({"property_id": pid, "reason": NOT_APPLICABLE.get(pid, PENDING)})

manifest = {
    "version": 1,
    "setup_cmd": "sh build.sh && bin/govc warm",
    "hooks": {
        "guard": "verif",
        "enable": "go build -tags verif (the hook files are comment-only contract files zz_contracts_verif.go; govc loads /repo with -tags verif)",
        "baseline_off_cmd": base["cmd"],
        "source_commits": hooks_commits,
        "add_only": True,
    },
    "engines": [{
        "name": "govc",
        "path": "/verif/govc",
        "serves_properties": [c["property_id"] for c in checks],
        "kind_free_text": "deductive verifier for Go written for this task: contracts (requires/ensures/invariant/decreases/modifies) in comment files, VCs by symbolic execution of go/ssa with loop cutting, discharged by z3-new, z3, cvc5",
    }],
    "checks": checks,
    "not_applicable": na,
    "notes": "Known findings: /verif/KNOWN_FINDINGS.jsonl. Seeded mutants: /verif/seeded. Every check rebuilds its VCs from /repo's working tree on every run.",
}
json.dump(manifest, open(os.path.join(V, "MANIFEST.json"), "w"), indent=1)
print("MANIFEST.json written:", len(checks), "checks,", len(na), "not applicable")
