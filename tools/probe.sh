#!/bin/sh
# usage: tools/probe.sh <pkgdir-relative-to-repo> <probe_test.go> <TestName>
# Runs a probe test against /repo via -overlay (nothing is written into /repo).
set -u
PKG="$1"; F="$2"; T="$3"
W=$(mktemp -d)
cp "$F" "$W/zz_probe_test.go"
printf '{"Replace": {"/repo/%s/zz_probe_test.go": "%s/zz_probe_test.go"}}' "$PKG" "$W" > "$W/ov.json"
(cd /repo/"$PKG" && GOFLAGS=-mod=mod go test -overlay "$W/ov.json" -vet=off -count=1 -timeout 120s -run "^$T\$" -v . 2>&1 | tail -${PROBE_TAIL:-15}); rc=$?
rm -rf "$W"
exit $rc
