#!/bin/sh
# usage: tryseed.sh <seed-dir-name> [PID] ; applies seeded patch on a scratch worktree with /repo's CURRENT contract files
cd /verif
D=$1; PID=${2:-$(echo $D | cut -c1-3)}
WT=/tmp/ts.$D
rm -rf $WT; git -C /repo worktree prune
git -C /repo worktree add -q --detach "$WT" HEAD || exit 2
(cd /repo && find . -name zz_contracts_verif.go | while read f; do mkdir -p $WT/$(dirname $f); cp $f $WT/$f; done)
case $D in /*) P=$D;; *) P=/verif/seeded/$D/patch.diff;; esac
git -C "$WT" apply "$P" || echo NOAPPLY
OUT=$(VERIF_REPO="$WT" VERIF_EVIDENCE_DIR="$WT/.evidence" ./bin/govc check $PID --tier quick 2>&1)
echo "$OUT" | grep -E "^VIOLATION|^KNOWN|error" | cut -c1-300 | head -8
echo "$OUT" | tail -2 | cut -c1-200
[ -n "$KEEP" ] || git -C /repo worktree remove --force "$WT"
