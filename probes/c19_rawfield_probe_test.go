package lib

import (
	"fmt"
	"testing"

	"google.golang.org/protobuf/encoding/protowire"
)

// probe: BytesToBlockHash on untrusted certificate.Block bytes whose first field claims a length of 2^63
func TestVerifProbeC19RawFieldHugeLength(t *testing.T) {
	defer func() {
		if r := recover(); r != nil {
			fmt.Printf("PROBE panic: %v\n", r)
			t.Fatalf("panic on untrusted bytes: %v", r)
		}
	}()
	bz := protowire.AppendTag(nil, 1, protowire.BytesType)
	bz = protowire.AppendVarint(bz, 1<<63)
	h, _ := new(Block).BytesToBlockHash(bz)
	fmt.Printf("PROBE result %x\n", h)
	qc := &QuorumCertificate{Header: &View{Phase: Phase_PROPOSE_VOTE}, Block: bz, BlockHash: make([]byte, 32), ResultsHash: make([]byte, 32), Results: &CertificateResult{}, Signature: &AggregateSignature{Signature: make([]byte, 96), Bitmap: []byte{1}}}
	err := qc.CheckBasic()
	fmt.Printf("PROBE CheckBasic err=%v\n", err)
}
