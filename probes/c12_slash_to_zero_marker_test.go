package fsm

import (
	"testing"

	"github.com/canopy-network/canopy/lib"
	"github.com/canopy-network/canopy/lib/crypto"
)

// Probe for C12: a validator that is unstaking is slashed down to zero (and thereby deleted).
// Its unstaking marker must not survive it: otherwise end-block at the marker's height fails for
// every block (the chain wedges).
func TestVerifProbeSlashToZeroLeavesUnstakingMarker(t *testing.T) {
	sm := newTestStateMachine(t)
	if err := sm.SetParams(DefaultParams()); err != nil {
		t.Fatal(err)
	}
	params, err := sm.GetParamsVal()
	if err != nil {
		t.Fatal(err)
	}
	addr := newTestAddress(t)
	// preset supply so burns and un-stakes do not underflow
	if err := sm.SetSupply(&Supply{Total: 1000, Staked: 1, CommitteeStaked: []*Pool{{Id: lib.CanopyChainId, Amount: 1}}}); err != nil {
		t.Fatal(err)
	}
	v := &Validator{Address: addr.Bytes(), PublicKey: newTestPublicKeyBytes(t), StakedAmount: 1, Committees: []uint64{lib.CanopyChainId}, Output: addr.Bytes()}
	if err := sm.SetValidator(v); err != nil {
		t.Fatal(err)
	}
	if err := sm.SetCommittees(crypto.NewAddress(v.Address), v.StakedAmount, v.Committees); err != nil {
		t.Fatal(err)
	}
	const finish = uint64(7)
	if err := sm.SetValidatorUnstaking(addr, v, finish); err != nil {
		t.Fatal(err)
	}
	// slash 100% -> stake 0 -> the validator record is deleted
	if err := sm.SlashValidator(v, lib.CanopyChainId, 100, params); err != nil {
		t.Fatalf("slash: %v", err)
	}
	if _, e := sm.GetValidator(addr); e == nil {
		t.Fatal("expected the validator to be deleted by the slash")
	}
	// the block at the marker's height must still be processable
	sm.height = finish
	if err := sm.DeleteFinishedUnstaking(); err != nil {
		t.Fatalf("end-block at the old unstaking height fails after the slash deleted the validator: %v", err)
	}
}
