package crypto

import (
	"testing"
)

// probe: does a BLS "identity" at the point at infinity verify arbitrary messages under the infinity signature?
func TestVerifProbeBLSInfinity(t *testing.T) {
	g1inf := make([]byte, 48)
	g1inf[0] = 0xC0 // compressed point at infinity
	pk, err := BytesToBLS12381Public(g1inf)
	if err != nil {
		t.Logf("PROBE infinity public key rejected at decoding: %v", err)
		return
	}
	g2inf := make([]byte, 96)
	g2inf[0] = 0xC0
	for _, m := range []string{"a", "another message"} {
		t.Logf("PROBE verify(inf key, %q, inf sig) = %v", m, pk.VerifyBytes([]byte(m), g2inf))
	}
}
