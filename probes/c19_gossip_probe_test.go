package controller

import (
	"testing"

	"github.com/canopy-network/canopy/bft"
	"github.com/canopy-network/canopy/lib"
)

// Probe (C19): a consensus message decoded from untrusted bytes with a leader header and a certificate WITHOUT a header
// is classified "proposer message: always gossip" by ShouldGossip's own predicate; GossipConsensus then reads
// message.Qc.Header.Phase. The bytes go through the real lib.Unmarshal first.
func TestVerifProbeC19GossipNilHeader(t *testing.T) {
	bz, err := lib.Marshal(&bft.Message{Header: &lib.View{Phase: lib.Phase_PROPOSE, Height: 1}, Qc: &lib.QuorumCertificate{}})
	if err != nil {
		t.Fatal(err)
	}
	msg := new(bft.Message)
	if e := lib.Unmarshal(bz, msg); e != nil {
		t.Fatalf("the bytes do not decode: %v", e)
	}
	if !msg.IsProposerMessage() {
		t.Fatalf("not classified as a proposer message")
	}
	if msg.Qc == nil || msg.Qc.Header != nil {
		t.Fatalf("decoded message does not have the shape intended (Qc=%v)", msg.Qc)
	}
	// the controller of this probe has a logger that stops the call right after the phase was read and logged (the
	// network side of GossipConsensus is not set up here): reaching the logger means the message was read without a panic
	defer func() {
		if r := recover(); r != nil && r != probeReachedLog {
			t.Errorf("GossipConsensus panicked on a decoded peer message before logging it: %v", r)
		}
	}()
	c := &Controller{log: probeLogger{lib.NewNullLogger()}}
	c.GossipConsensus(msg, nil)
}

const probeReachedLog = "probe: reached the log line"

type probeLogger struct{ lib.LoggerI }

func (probeLogger) Debugf(string, ...any) { panic(probeReachedLog) }
