package store

import (
	"bytes"
	"fmt"
	"sort"
	"testing"

	"github.com/canopy-network/canopy/lib"
)

type pOp struct {
	k int
	v string
}

func pRef(t *testing.T, state map[int]string) []byte {
	st, err := NewStoreInMemory(lib.NewNullLogger())
	if err != nil {
		t.Fatal(err)
	}
	s := st.(*Store)
	defer s.Close()
	var ks []int
	for k := range state {
		ks = append(ks, k)
	}
	sort.Ints(ks)
	for _, k := range ks {
		s.Set(lib.JoinLenPrefix([]byte("k/"), []byte(fmt.Sprintf("key-%03d", k))), []byte(state[k]))
	}
	r, e := s.Commit()
	if e != nil {
		t.Fatal(e)
	}
	return r
}

// Probe: commit, commit, rollback to 1, commit something else: is the root that of the resulting state?
func TestVerifProbeC08Rollback(t *testing.T) {
	key := func(i int) []byte { return lib.JoinLenPrefix([]byte("k/"), []byte(fmt.Sprintf("key-%03d", i))) }
	b0 := []pOp{{182, "v0-85"}, {118, "v0-404"}, {9, "v0-215"}, {197, "v0-312"}, {21, "v0-916"}, {1, "v0-758"}, {123, "v0-333"}, {153, "v0-241"}, {156, "v0-343"}, {219, "v0-968"}, {156, "v0-650"}}
	b1 := []pOp{{1, ""}, {21, ""}, {118, ""}, {156, ""}, {182, ""}, {197, ""}, {152, "w1-166"}, {15, "w1-658"}, {132, "v1-515"}, {67, "w1-920"}, {190, "v1-428"}, {150, "v1-14"}, {85, "v1-473"}, {81, "v1-233"}, {176, "v1-864"}, {147, "v1-219"}, {99, "v1-944"}, {100, "w1-970"}, {3, "w1-793"}, {54, "w1-267"}, {122, "v1-610"}, {68, "w1-486"}, {79, "v1-778"}, {128, "v1-192"}, {40, "w1-430"}, {36, "v1-216"}, {146, "v1-801"}, {0, "w1-495"}}
	b2 := []pOp{{3, ""}, {9, ""}, {36, ""}, {40, ""}, {54, ""}, {68, ""}, {79, ""}, {81, ""}, {85, ""}, {99, ""}, {122, ""}, {132, ""}, {146, ""}, {147, ""}, {150, ""}, {152, ""}, {153, ""}, {190, ""}, {219, ""}, {173, "v2-370"}, {120, "w2-201"}, {155, "w2-390"}}
	st, err := NewStoreInMemory(lib.NewNullLogger())
	if err != nil {
		t.Fatal(err)
	}
	s := st.(*Store)
	defer s.Close()
	state := map[int]string{}
	apply := func(ops []pOp) []byte {
		for _, o := range ops {
			if o.v == "" {
				s.Delete(key(o.k))
				delete(state, o.k)
			} else {
				s.Set(key(o.k), []byte(o.v))
				state[o.k] = o.v
			}
		}
		r, e := s.Commit()
		if e != nil {
			t.Fatal(e)
		}
		return r
	}
	r1 := apply(b0)
	s1 := map[int]string{}
	for k, v := range state {
		s1[k] = v
	}
	if !bytes.Equal(r1, pRef(t, state)) {
		t.Fatalf("root 1 differs from reference")
	}
	r2 := apply(b1)
	if !bytes.Equal(r2, pRef(t, state)) {
		t.Fatalf("root 2 differs from reference")
	}
	if e := s.Rollback(1); e != nil {
		t.Fatal(e)
	}
	state = s1
	rr, e := s.Root()
	if e != nil {
		t.Fatal(e)
	}
	if !bytes.Equal(rr, r1) {
		t.Errorf("Root() right after Rollback(1) is not the root committed for height 1: %x vs %x", rr, r1)
	}
	s.Reset() // Root() caches the tree of the block in progress: reset before writing the next block (as the node does)
	r2b := apply(b2)
	if ref := pRef(t, state); !bytes.Equal(r2b, ref) {
		t.Errorf("root of the block committed after the rollback is not the root of its state (%d keys): %x vs reference %x", len(state), r2b, ref)
	}
}
