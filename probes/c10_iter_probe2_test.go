package store

import (
	"fmt"
	"testing"

	"github.com/canopy-network/canopy/lib"
)

func verifDump(s lib.RWStoreI, p []byte, rev bool) (got []string) {
	var it lib.IteratorI
	if rev {
		it, _ = s.RevIterator(p)
	} else {
		it, _ = s.Iterator(p)
	}
	for ; it.Valid(); it.Next() {
		got = append(got, fmt.Sprintf("%x=%s", it.Key(), it.Value()))
	}
	it.Close()
	return
}

func TestVerifProbeC10Variants(t *testing.T) {
	ac := lib.JoinLenPrefix([]byte("a"), []byte("c"))
	acb := lib.JoinLenPrefix([]byte("a"), []byte("c"), []byte("b"))
	ad := lib.JoinLenPrefix([]byte("a"), []byte("d"))
	for _, variant := range []string{"nopending", "pending-other", "pending-ac", "pending-acb", "two-blocks"} {
		st, _ := NewStoreInMemory(lib.NewNullLogger())
		s := st.(*Store)
		s.Set(ac, []byte("1"))
		s.Set(acb, []byte("2"))
		s.Commit()
		switch variant {
		case "pending-other":
			s.Set(ad, []byte("3"))
		case "pending-ac":
			s.Set(ac, []byte("3"))
		case "pending-acb":
			s.Set(acb, []byte("3"))
		case "two-blocks":
			s.Set(ac, []byte("3"))
			s.Commit()
		}
		fmt.Printf("PROBE %-14s fwd %v rev %v\n", variant, verifDump(s, nil, false), verifDump(s, nil, true))
		s.Close()
	}
}
