package store

import (
	"bytes"
	"fmt"
	"testing"

	"github.com/canopy-network/canopy/lib"
)

// Probe: does deleting a key that is NOT in the state change the committed root?
func TestVerifProbeC08AbsentDelete(t *testing.T) {
	k := func(i int) []byte { return lib.JoinLenPrefix([]byte("k/"), []byte(fmt.Sprintf("key-%03d", i))) }
	mk := func() *Store {
		st, err := NewStoreInMemory(lib.NewNullLogger())
		if err != nil {
			t.Fatal(err)
		}
		return st.(*Store)
	}
	for n := 1; n <= 40; n++ {
		for absent := 100; absent < 140; absent++ {
			a, b := mk(), mk()
			for i := 0; i < n; i++ {
				a.Set(k(i), []byte("v"))
				b.Set(k(i), []byte("v"))
			}
			ra1, _ := a.Commit()
			rb1, _ := b.Commit()
			if !bytes.Equal(ra1, rb1) {
				t.Fatalf("setup roots differ")
			}
			// a: a block that only deletes an absent key (plus enough absent deletes to cross the parallel threshold in a second variant)
			a.Delete(k(absent))
			ra2, _ := a.Commit()
			rb2, _ := b.Commit()
			if !bytes.Equal(ra2, rb2) {
				t.Errorf("n=%d absent=%d: deleting an absent key changed the root: %x vs %x", n, absent, ra2, rb2)
				a.Close()
				b.Close()
				return
			}
			a.Close()
			b.Close()
		}
	}
	// many absent deletes in one block (parallel path)
	for n := 1; n <= 40; n += 3 {
		a, b := mk(), mk()
		for i := 0; i < n; i++ {
			a.Set(k(i), []byte("v"))
			b.Set(k(i), []byte("v"))
		}
		a.Commit()
		b.Commit()
		for j := 100; j < 130; j++ {
			a.Delete(k(j))
		}
		ra2, _ := a.Commit()
		rb2, _ := b.Commit()
		if !bytes.Equal(ra2, rb2) {
			t.Errorf("n=%d: a block of 30 deletes of absent keys changed the root: %x vs %x", n, ra2, rb2)
			return
		}
		a.Close()
		b.Close()
	}
}
