package bft

import (
	"testing"

	"github.com/canopy-network/canopy/lib"
)

// Probe for C01 / SafeNode: a replica locked at (rootHeight 6, round 0) is offered a HighQC from the
// OLDER view (rootHeight 5, round 3) for a different proposal. The lock must hold.
func TestVerifProbeSafeNodeOlderRootHeightHigherRound(t *testing.T) {
	c := newTestConsensus(t, PrecommitVote, 4)
	c.simPrecommitPhase(t, 0)
	go c.bft.StartPrecommitVotePhase()
	<-c.cont.sendToProposerChan
	// the replica is now locked; place the lock in the newer root height, round 0
	c.bft.HighQC.Header.RootHeight = 6
	c.bft.HighQC.Header.Round = 0
	other := c.cont.NewTestBlock2()
	otherHash := c.cont.NewTestBlockHash2()
	err := c.bft.SafeNode(&Message{
		Qc: &QC{Results: c.bft.HighQC.Results, Block: other},
		HighQc: &QC{
			Header:      &lib.View{Height: c.bft.HighQC.Header.Height, RootHeight: 5, Round: 3, Phase: lib.Phase_PROPOSE_VOTE, NetworkId: c.bft.HighQC.Header.NetworkId, ChainId: c.bft.HighQC.Header.ChainId},
			BlockHash:   otherHash,
			ResultsHash: c.bft.HighQC.Results.Hash(),
		},
	})
	if string(otherHash) == string(c.bft.HighQC.BlockHash) {
		t.Skip("test blocks coincide")
	}
	if err == nil {
		t.Fatalf("SafeNode unlocked a lock at (rootHeight 6, round 0) with a HighQC from the older view (rootHeight 5, round 3)")
	}
}
