package fsm

import (
	"math"
	"testing"

	"github.com/canopy-network/canopy/lib"
)

// Probe for C04: a credit that does not fit in 64 bits must be refused, never wrapped.
func TestVerifProbePoolAddWraps(t *testing.T) {
	sm := newTestStateMachine(t)
	if err := sm.SetPool(&Pool{Id: lib.CanopyChainId, Amount: math.MaxUint64 - 1}); err != nil {
		t.Fatal(err)
	}
	err := sm.PoolAdd(lib.CanopyChainId, 3)
	bal, e := sm.GetPoolBalance(lib.CanopyChainId)
	if e != nil {
		t.Fatal(e)
	}
	if err == nil && bal != math.MaxUint64-1 {
		t.Fatalf("PoolAdd(MaxUint64-1 + 3) succeeded and left the pool at %d (wrapped)", bal)
	}
}

func TestVerifProbeAddToTotalSupplyWraps(t *testing.T) {
	sm := newTestStateMachine(t)
	if err := sm.SetSupply(&Supply{Total: math.MaxUint64}); err != nil {
		t.Fatal(err)
	}
	err := sm.AddToTotalSupply(2)
	sup, e := sm.GetSupply()
	if e != nil {
		t.Fatal(e)
	}
	if err == nil && sup.Total != math.MaxUint64 {
		t.Fatalf("AddToTotalSupply(MaxUint64 + 2) succeeded and left the total at %d (wrapped)", sup.Total)
	}
}
