package store

import (
	"fmt"
	"testing"

	"github.com/canopy-network/canopy/lib"
)

// probe: a committed key K and a committed longer key K||x; then K is overwritten in the pending overlay.
// Forward iteration must still show K||x.
func TestVerifProbeC10OverwriteHidesNext(t *testing.T) {
	st, err := NewStoreInMemory(lib.NewNullLogger())
	if err != nil {
		t.Fatal(err)
	}
	s := st.(*Store)
	defer s.Close()
	ac := lib.JoinLenPrefix([]byte("a"), []byte("c"))
	acb := lib.JoinLenPrefix([]byte("a"), []byte("c"), []byte("b"))
	s.Set(ac, []byte("1"))
	s.Set(acb, []byte("2"))
	if _, e := s.Commit(); e != nil {
		t.Fatal(e)
	}
	s.Set(ac, []byte("3"))
	for _, rev := range []bool{false, true} {
		var it lib.IteratorI
		if rev {
			it, _ = s.RevIterator(nil)
		} else {
			it, _ = s.Iterator(nil)
		}
		var got []string
		for ; it.Valid(); it.Next() {
			got = append(got, fmt.Sprintf("%x=%s", it.Key(), it.Value()))
		}
		it.Close()
		fmt.Printf("PROBE reverse=%v got %v\n", rev, got)
		if len(got) != 2 {
			t.Errorf("reverse=%v: expected 2 entries, got %v", rev, got)
		}
	}
}
