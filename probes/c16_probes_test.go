package store

import (
	"fmt"
	"testing"

	"github.com/canopy-network/canopy/lib"
)

// Probe F7 (C16): a proof produced by the read-only store for a committed height must verify
// against the root committed for that height.
func TestVerifProbeReadOnlyProofVerifies(t *testing.T) {
	st, err := NewStoreInMemory(lib.NewDefaultLogger())
	if err != nil {
		t.Fatal(err)
	}
	s := st.(*Store)
	for i := 0; i < 8; i++ {
		if e := s.Set(lib.JoinLenPrefix([]byte(fmt.Sprintf("key%d", i))), []byte(fmt.Sprintf("val%d", i))); e != nil {
			t.Fatal(e)
		}
	}
	root, e := s.Commit()
	if e != nil {
		t.Fatal(e)
	}
	ro, e := s.NewReadOnly(s.Version())
	if e != nil {
		t.Fatal(e)
	}
	k, v := lib.JoinLenPrefix([]byte("key3")), []byte("val3")
	proof, e := ro.(*Store).GetProof(k)
	if e != nil {
		t.Fatalf("GetProof on the read-only store: %v", e)
	}
	ok, e := ro.(*Store).VerifyProof(k, v, true, root, proof)
	if e != nil || !ok {
		t.Fatalf("membership proof from the read-only store does not verify against the committed root (ok=%v err=%v, %d proof nodes)", ok, e, len(proof))
	}
}

// Probe F5 (C16): a malformed proof must be rejected, not crash the verifier.
func TestVerifProbeMalformedProofKeyPanics(t *testing.T) {
	defer func() {
		if r := recover(); r != nil {
			t.Fatalf("VerifyProof panicked on a malformed proof: %v", r)
		}
	}()
	st, _ := NewStoreInMemory(lib.NewDefaultLogger())
	s := st.(*Store)
	s.Set(lib.JoinLenPrefix([]byte("a")), []byte("b"))
	root, _ := s.Commit()
	proof := []*lib.Node{{Key: []byte{0}, Value: []byte("x")}, {Key: []byte{0}, Value: []byte("y")}}
	s.Root()
	s.VerifyProof(lib.JoinLenPrefix([]byte("a")), []byte("b"), true, root, proof)
}
