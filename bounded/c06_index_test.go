package store

// Bounded stand-in for C06 (labelled: NOT a proof). CheckReplay finds an already included transaction through the
// tx-by-hash index that IndexBlock fills - with one goroutine per transaction, outside the generator. Here blocks of
// 1..40 transactions are indexed through the REAL IndexBlock and every transaction of the block must then be found by
// its hash (before and after the commit), whatever the block size.
// Bounds: block sizes 1..40, printed in the summary line.

import (
	"fmt"
	"testing"

	"github.com/canopy-network/canopy/lib"
)

func TestVerifBoundedC06Index(t *testing.T) {
	evals, viol := 0, 0
	for n := 1; n <= 40; n++ {
		st, err := NewStoreInMemory(lib.NewNullLogger())
		if err != nil {
			t.Fatal(err)
		}
		s := st.(*Store)
		height := uint64(1)
		blk := &lib.BlockResult{BlockHeader: &lib.BlockHeader{Height: height, Hash: lib.JoinLenPrefix([]byte(fmt.Sprintf("block-hash-%d", n))), NumTxs: uint64(n)}}
		var hashes [][]byte
		for i := 0; i < n; i++ {
			tx := &lib.Transaction{MessageType: "send", Time: uint64(1000*n + i), Fee: 1, CreatedHeight: height, Memo: fmt.Sprintf("tx-%d-%d", n, i)}
			h, e := tx.GetHash()
			if e != nil {
				t.Fatal(e)
			}
			hashes = append(hashes, h)
			blk.Transactions = append(blk.Transactions, &lib.TxResult{
				Sender: []byte{1, 2, 3}, Recipient: []byte{4, 5, 6}, MessageType: "send", Height: height, Index: uint64(i),
				Transaction: tx, TxHash: lib.BytesToString(h),
			})
		}
		if e := s.IndexBlock(blk); e != nil {
			t.Fatal(e)
		}
		check := func(when string) {
			for i, h := range hashes {
				evals++
				got, e := s.GetTxByHash(h)
				if e != nil || got == nil || got.TxHash != lib.BytesToString(h) {
					viol++
					if viol <= 3 {
						fmt.Printf("BOUNDED-VIOLATION kind=notindexed block_size=%d tx=%d %s: a transaction of an indexed block is not found by its hash (err=%v) - the replay check cannot see it\n", n, i, when, e)
					}
				}
			}
		}
		check("before commit")
		if _, e := s.Commit(); e != nil {
			t.Fatal(e)
		}
		check("after commit")
		s.Close()
	}
	fmt.Printf("BOUNDED-SUMMARY name=c06_index evaluations=%d distinct_nontrivial=%d violations=%d bound=block_sizes:1..40\n", evals, evals, viol)
}
