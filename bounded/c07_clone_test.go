package fsm

// Bounded stand-in for C07 (labelled: NOT a proof): the slash tracker snapshot taken before every transaction
// must be independent of the live tracker (nested maps: validator -> committee -> percent), otherwise a failed
// transaction's slashes survive the restore. Random trackers are built with the real AddSlash, cloned with the
// real Clone, then the live tracker is slashed further (existing validators, existing and new committees, new
// validators) and the clone must still read exactly what it read before - and the other way round.

import (
	"fmt"
	"math/rand"
	"os"
	"strconv"
	"testing"
)

func TestVerifBoundedC07(t *testing.T) {
	seed, _ := strconv.ParseInt(os.Getenv("VERIF_SEED"), 10, 64)
	n, _ := strconv.Atoi(os.Getenv("VERIF_BOUND_TRACKERS"))
	if n == 0 {
		n = 200
	}
	rng := rand.New(rand.NewSource(seed + 11))
	addrs := [][]byte{{1}, {2}, {3}, {4, 4}}
	chains := []uint64{1, 2, 3}
	evals, nontrivial, viol := 0, 0, 0
	snapshot := func(tr *SlashTracker) map[string]uint64 {
		out := map[string]uint64{}
		for _, a := range addrs {
			for _, c := range chains {
				out[fmt.Sprintf("%x/%d", a, c)] = tr.GetTotalSlashPercent(a, c)
			}
		}
		return out
	}
	same := func(a, b map[string]uint64) bool {
		for k, v := range a {
			if b[k] != v {
				return false
			}
		}
		return len(a) == len(b)
	}
	mutate := func(tr *SlashTracker, k int) {
		for i := 0; i < k; i++ {
			tr.AddSlash(addrs[rng.Intn(len(addrs))], chains[rng.Intn(len(chains))], uint64(1+rng.Intn(9)))
		}
	}
	for i := 0; i < n; i++ {
		live := NewSlashTracker()
		mutate(live, rng.Intn(6))
		clone := live.Clone()
		before := snapshot(clone)
		liveBefore := snapshot(live)
		if !same(before, liveBefore) {
			viol++
			fmt.Printf("BOUNDED-VIOLATION kind=unequal the clone does not read what the tracker reads\n")
		}
		// direction 1: the live tracker moves on, the snapshot must not
		mutate(live, 1+rng.Intn(5))
		evals++
		if len(before) > 0 {
			nontrivial++
		}
		if !same(before, snapshot(clone)) {
			viol++
			if viol <= 3 {
				fmt.Printf("BOUNDED-VIOLATION kind=shared a slash added to the live tracker after Clone() shows up in the snapshot (tracker %d)\n", i)
			}
		}
		// direction 2: slashing the snapshot must not touch the live tracker
		liveNow := snapshot(live)
		mutate(clone, 1+rng.Intn(5))
		evals++
		if !same(liveNow, snapshot(live)) {
			viol++
			if viol <= 3 {
				fmt.Printf("BOUNDED-VIOLATION kind=shared a slash added to the snapshot shows up in the live tracker (tracker %d)\n", i)
			}
		}
	}
	fmt.Printf("BOUNDED-SAMPLE %d random trackers over %d validators x %d committees, clone independence checked in both directions\n", n, len(addrs), len(chains))
	fmt.Printf("BOUNDED-SUMMARY name=c07_clone evaluations=%d distinct_nontrivial=%d violations=%d bound=trackers:%d,validators:%d,committees:%d\n", evals, nontrivial, viol, n, len(addrs), len(chains))
}
