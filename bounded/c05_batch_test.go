package crypto

// Bounded stand-in for C05 (labelled: NOT a proof). BatchVerifier.Verify fans the queued tuples out over 8 goroutines -
// outside the generator - so the statement "the batch pass reports EXACTLY the tuples whose signature does not verify"
// is exercised on the real code over random small batches instead: 1..24 tuples of the four key types, each valid or
// tampered (message, signature or key swapped), some verified one-by-one beforehand (so that they sit in the signature
// cache when the batch runs). Batches below and above the number of worker lists (8) are covered.
// Bounds: batches x tuples per batch, printed in the summary line.

import (
	"fmt"
	"math/rand"
	"os"
	"sort"
	"strconv"
	"testing"
)

func TestVerifBoundedC05(t *testing.T) {
	seed, _ := strconv.ParseInt(os.Getenv("VERIF_SEED"), 10, 64)
	batches, _ := strconv.Atoi(os.Getenv("VERIF_BOUND_BATCHES"))
	if batches == 0 {
		batches = 60
	}
	const maxTuples = 24
	rng := rand.New(rand.NewSource(seed + 5))
	mk := []func() (PrivateKeyI, error){NewEd25519PrivateKey, NewSECP256K1PrivateKey, NewETHSECP256K1PrivateKey, NewBLS12381PrivateKey}
	// a small pool of keys per type (key generation is the slow part)
	var pool [4][]PrivateKeyI
	for ty := range mk {
		for i := 0; i < 3; i++ {
			k, err := mk[ty]()
			if err != nil {
				t.Fatal(err)
			}
			pool[ty] = append(pool[ty], k)
		}
	}
	evals, nontrivial, viol := 0, 0, 0
	for b := 0; b < batches; b++ {
		n := 1 + rng.Intn(maxTuples)
		if b%3 == 0 {
			n = 1 + rng.Intn(7) // fewer tuples than worker lists
		}
		bv := NewBatchVerifier()
		var want []int
		var desc []string
		for i := 0; i < n; i++ {
			ty := rng.Intn(4)
			key := pool[ty][rng.Intn(3)]
			msg := []byte(fmt.Sprintf("batch-%d-%d-tuple-%d-%d", seed, b, i, rng.Int63()))
			sig := key.Sign(msg)
			pub := key.PublicKey()
			bad := rng.Intn(3) == 0
			switch {
			case !bad:
			case rng.Intn(2) == 0: // the signed content was altered
				msg = append([]byte("x"), msg...)
			default: // somebody else's signature under this key
				sig = pool[ty][(rng.Intn(2)+1+indexOf(pool[ty], key))%3].Sign(msg)
			}
			precached := rng.Intn(4) == 0
			if precached {
				pub.VerifyBytes(msg, sig) // one-by-one verification first: a valid triple is now in the signature cache
			}
			if err := bv.Add(pub, pub.Bytes(), msg, sig); err != nil {
				t.Fatal(err)
			}
			if bad {
				want = append(want, i)
			}
			desc = append(desc, fmt.Sprintf("%d:type%d,bad=%v,cached=%v", i, ty, bad, precached))
		}
		got := bv.Verify()
		sort.Ints(got)
		evals++
		if len(want) > 0 && n > 1 {
			nontrivial++
		}
		if fmt.Sprint(got) != fmt.Sprint(want) && !(len(got) == 0 && len(want) == 0) {
			viol++
			if viol <= 3 {
				fmt.Printf("BOUNDED-VIOLATION kind=verdict batch=%d seed=%d tuples=%d: Verify() reported %v, the tuples whose signature does not verify are %v; batch=%v\n", b, seed, n, got, want, desc)
			}
		}
	}
	fmt.Printf("BOUNDED-SUMMARY name=c05_batch evaluations=%d distinct_nontrivial=%d violations=%d bound=batches:%d,tuples<=%d,keytypes:4,seed:%d\n", evals, nontrivial, viol, batches, maxTuples, seed)
}

func indexOf(ks []PrivateKeyI, k PrivateKeyI) int {
	for i := range ks {
		if ks[i] == k {
			return i
		}
	}
	return 0
}

// TestVerifBoundedC05Cache (labelled bounded, NOT a proof): the process-wide signature cache answers "already verified"
// for a (key, message, signature) triple - every verifier and the batch verifier trust a hit. After a VALID triple was
// verified (and cached), the same key and signature presented with ANY other message must still be rejected, whatever
// the message length and wherever the difference sits: messages of 1..600 bytes (below and above a signature's length
// and well beyond any fixed-size buffer), altered in the first byte, the middle, the last byte, or by one byte more /
// less. The cache key function is also compared directly on those pairs.
func TestVerifBoundedC05Cache(t *testing.T) {
	seed, _ := strconv.ParseInt(os.Getenv("VERIF_SEED"), 10, 64)
	rng := rand.New(rand.NewSource(seed + 55))
	mk := []func() (PrivateKeyI, error){NewEd25519PrivateKey, NewSECP256K1PrivateKey, NewETHSECP256K1PrivateKey, NewBLS12381PrivateKey}
	lengths := []int{1, 2, 31, 32, 33, 63, 64, 65, 95, 96, 97, 120, 200, 239, 240, 241, 255, 256, 257, 287, 288, 289, 383, 384, 385, 500, 600}
	evals, viol := 0, 0
	for ty := range mk {
		key, err := mk[ty]()
		if err != nil {
			t.Fatal(err)
		}
		pub := key.PublicKey()
		for _, n := range lengths {
			msg := make([]byte, n)
			rng.Read(msg)
			sig := key.Sign(msg)
			if !pub.VerifyBytes(msg, sig) {
				t.Fatalf("a fresh valid signature does not verify (type %d, len %d)", ty, n)
			}
			variants := map[string][]byte{}
			for name, pos := range map[string]int{"first": 0, "middle": n / 2, "last": n - 1} {
				m := append([]byte(nil), msg...)
				m[pos] ^= 0x01
				variants[name] = m
			}
			variants["longer"] = append(append([]byte(nil), msg...), 0x00)
			if n > 1 {
				variants["shorter"] = append([]byte(nil), msg[:n-1]...)
			}
			// the same message under an ALTERED signature (first / middle / last byte flipped, one byte cut off), and the
			// valid pair offered under ANOTHER key of the same type: a cache hit for the verified triple must not answer
			// for either (a cache key that leaves the signature or the key out would)
			sigVariants := map[string][]byte{}
			for name, pos := range map[string]int{"sigfirst": 0, "sigmiddle": len(sig) / 2, "siglast": len(sig) - 1} {
				sv := append([]byte(nil), sig...)
				sv[pos] ^= 0x01
				sigVariants[name] = sv
			}
			sigVariants["sigshorter"] = append([]byte(nil), sig[:len(sig)-1]...)
			for name, sv := range sigVariants {
				evals++
				accepted := func() (ok bool) {
					defer func() { _ = recover() }() // a malformed signature may be rejected by a panic in the library
					return pub.VerifyBytes(msg, sv)
				}()
				if accepted {
					viol++
					if viol <= 3 {
						fmt.Printf("BOUNDED-VIOLATION kind=cachehit.signature keytype=%d msglen=%d variant=%s: after the valid triple was verified, an ALTERED signature is accepted for the same key and message\n", ty, n, name)
					}
				}
				evals++
				a := BatchTuple{PublicKey: pub, Message: msg, Signature: sig}
				b := BatchTuple{PublicKey: pub, Message: msg, Signature: sv}
				if a.Key() == b.Key() {
					viol++
					if viol <= 3 {
						fmt.Printf("BOUNDED-VIOLATION kind=cachekey.signature keytype=%d msglen=%d variant=%s: two different signatures over one message share a cache key\n", ty, n, name)
					}
				}
			}
			if other, e := mk[ty](); e == nil {
				evals++
				if other.PublicKey().VerifyBytes(msg, sig) {
					viol++
					if viol <= 3 {
						fmt.Printf("BOUNDED-VIOLATION kind=cachehit.key keytype=%d msglen=%d: after the valid triple was verified, the pair is accepted under another public key\n", ty, n)
					}
				}
			}
			for name, m := range variants {
				evals++
				if pub.VerifyBytes(m, sig) {
					viol++
					if viol <= 3 {
						fmt.Printf("BOUNDED-VIOLATION kind=cachehit keytype=%d msglen=%d variant=%s: after the valid triple was verified, the SAME signature is accepted for a different message\n", ty, n, name)
					}
				}
				evals++
				a := BatchTuple{PublicKey: pub, Message: msg, Signature: sig}
				b := BatchTuple{PublicKey: pub, Message: m, Signature: sig}
				if a.Key() == b.Key() {
					viol++
					if viol <= 3 {
						fmt.Printf("BOUNDED-VIOLATION kind=cachekey keytype=%d msglen=%d variant=%s: two different messages under one key and signature share a cache key\n", ty, n, name)
					}
				}
			}
		}
	}
	fmt.Printf("BOUNDED-SUMMARY name=c05_cache evaluations=%d distinct_nontrivial=%d violations=%d bound=keytypes:4,msglens:%d(1..600),variants:5msg+4sig+1key,seed:%d\n", evals, evals, viol, len(lengths), seed)
}
