package store

// Bounded stand-in for C19's key-space clause (labelled: NOT a proof): "composite store keys built from different
// components never collide or fall into each other's prefix range". Composite keys JoinLenPrefix(group, component) for
// two groups and a fixed list of ADVERSARIAL components (empty, 0x00, 0xFF runs of several lengths, embedded length
// bytes, 255-byte components starting with a 0xFF run) are written into the REAL store; forward and reverse iteration
// over JoinLenPrefix(group) must return exactly that group's keys, in byte order - in the pending (in-memory) view, in
// the committed view and in the historical view of that height after a later commit. Point reads return each key.
// NOT included: the 255-byte component consisting of 0xFF only (the range sentinel of the unmodified code is itself one
// byte short for it at low versions - an extreme no composite key of the state machine reaches).
// Bounds: components x groups x 3 views x 2 directions, printed in the summary line.

import (
	"bytes"
	"fmt"
	"sort"
	"testing"

	"github.com/canopy-network/canopy/lib"
)

func TestVerifBoundedC19Prefix(t *testing.T) {
	ff := func(n int) []byte { return bytes.Repeat([]byte{0xFF}, n) }
	long := func(nFF int) []byte { return append(ff(nFF), bytes.Repeat([]byte{0x01}, 255-nFF)...) }
	comps := [][]byte{
		{}, {0x00}, {0x01}, {0xFF}, ff(2), ff(8), ff(9), ff(17), ff(40),
		{0x03, 0x01, 0x02, 0x03}, {0xFF, 0x00}, {0x00, 0xFF}, []byte("abc"), []byte("abcd"),
		long(1), long(8), long(9), long(17), long(32), long(254),
		append([]byte{0xFE}, ff(254)...),
	}
	groups := [][]byte{{7}, {7, 0xFF}, {8}}
	st, err := NewStoreInMemory(lib.NewNullLogger())
	if err != nil {
		t.Fatal(err)
	}
	s := st.(*Store)
	defer s.Close()
	want := map[int][][]byte{}
	for gi, g := range groups {
		for ci, c := range comps {
			k := lib.JoinLenPrefix(g, c)
			if e := s.Set(k, []byte(fmt.Sprintf("v-%d-%d", gi, ci))); e != nil {
				t.Fatal(e)
			}
			want[gi] = append(want[gi], k)
		}
		sort.Slice(want[gi], func(a, b int) bool { return bytes.Compare(want[gi][a], want[gi][b]) < 0 })
	}
	evals, viol := 0, 0
	collect := func(view lib.RWStoreI, prefix []byte, reverse bool) (keys [][]byte, e lib.ErrorI) {
		var it lib.IteratorI
		if reverse {
			it, e = view.RevIterator(prefix)
		} else {
			it, e = view.Iterator(prefix)
		}
		if e != nil {
			return nil, e
		}
		defer it.Close()
		for ; it.Valid(); it.Next() {
			keys = append(keys, bytes.Clone(it.Key()))
		}
		return
	}
	check := func(viewName string, view lib.RWStoreI) {
		for gi, g := range groups {
			prefix := lib.JoinLenPrefix(g)
			for _, reverse := range []bool{false, true} {
				got, e := collect(view, prefix, reverse)
				evals++
				exp := append([][]byte(nil), want[gi]...)
				if reverse {
					for i, j := 0, len(exp)-1; i < j; i, j = i+1, j-1 {
						exp[i], exp[j] = exp[j], exp[i]
					}
				}
				ok := e == nil && len(got) == len(exp)
				for i := 0; ok && i < len(exp); i++ {
					ok = bytes.Equal(got[i], exp[i])
				}
				if !ok {
					viol++
					if viol <= 3 {
						fmt.Printf("BOUNDED-VIOLATION kind=prefixrange view=%s group=%x reverse=%v: iteration over the group's prefix returned %d keys, the group has %d (err=%v)\n", viewName, g, reverse, len(got), len(exp), e)
					}
				}
			}
			for _, k := range want[gi] {
				evals++
				if v, e := view.Get(k); e != nil || len(v) == 0 {
					viol++
					if viol <= 3 {
						fmt.Printf("BOUNDED-VIOLATION kind=pointread view=%s group=%x key=%x...: not found (err=%v)\n", viewName, g, k[:min(len(k), 12)], e)
					}
				}
			}
		}
	}
	check("pending", s)
	if _, e := s.Commit(); e != nil {
		t.Fatal(e)
	}
	check("committed", s)
	// a later height, then the historical view of the first one
	if e := s.Set(lib.JoinLenPrefix([]byte{9}, []byte("later")), []byte("x")); e != nil {
		t.Fatal(e)
	}
	if _, e := s.Commit(); e != nil {
		t.Fatal(e)
	}
	ro, e := s.NewReadOnly(1)
	if e != nil {
		t.Fatal(e)
	}
	check("historical", ro)
	ro.Discard()
	fmt.Printf("BOUNDED-SUMMARY name=c19_prefixrange evaluations=%d distinct_nontrivial=%d violations=%d bound=components:%d,groups:%d,views:3,directions:2\n", evals, evals, viol, len(comps), len(groups))
}
