package store

// Bounded stand-in for C16 (labelled: NOT a proof). Runs the REAL store and the REAL GetProof /
// VerifyProof over small random states and checks
//   completeness: a present key has a verifying membership proof, an absent key a verifying
//                 non-membership proof;
//   soundness:    the honest proof produced for key A, offered for ANY other key B, is never accepted
//                 as membership of (B, value) nor as non-membership of a B that is present.
// Bounds: trees x keys per tree, printed in the summary line.

import (
	"fmt"
	"math/rand"
	"os"
	"strconv"
	"testing"

	"github.com/canopy-network/canopy/lib"
)

func TestVerifBoundedC16(t *testing.T) {
	seed, _ := strconv.ParseInt(os.Getenv("VERIF_SEED"), 10, 64)
	trees, _ := strconv.Atoi(os.Getenv("VERIF_BOUND_TREES"))
	if trees == 0 {
		trees = 6
	}
	const maxKeys = 14
	rng := rand.New(rand.NewSource(seed + 7))
	evals, nontrivial := 0, 0
	counts := map[string]int{}
	report := func(kind, detail string) {
		counts[kind]++
		if counts[kind] <= 2 {
			fmt.Printf("BOUNDED-VIOLATION kind=%s %s\n", kind, detail)
		}
	}
	for tr := 0; tr < trees; tr++ {
		st, err := NewStoreInMemory(lib.NewNullLogger())
		if err != nil {
			t.Fatal(err)
		}
		s := st.(*Store)
		n := 2 + rng.Intn(maxKeys-1)
		keys, vals := [][]byte{}, [][]byte{}
		for i := 0; i < n; i++ {
			k := lib.JoinLenPrefix([]byte("p/"), []byte(fmt.Sprintf("key-%d-%d", tr, i)))
			v := []byte(fmt.Sprintf("val-%d", rng.Intn(1000)))
			if e := s.Set(k, v); e != nil {
				t.Fatal(e)
			}
			keys, vals = append(keys, k), append(vals, v)
		}
		root, e := s.Commit()
		if e != nil {
			t.Fatal(e)
		}
		if _, e = s.Root(); e != nil {
			t.Fatal(e)
		}
		safeVerify := func(k, v []byte, member bool, proof []*lib.Node) (ok bool, panicked bool) {
			defer func() {
				if r := recover(); r != nil {
					ok, panicked = false, true
				}
			}()
			ok, err := s.VerifyProof(k, v, member, root, proof)
			if err != nil {
				return false, false
			}
			return ok, false
		}
		proofs := make([][]*lib.Node, n)
		for i := range keys {
			p, e := s.GetProof(keys[i])
			if e != nil {
				t.Fatal(e)
			}
			proofs[i] = p
			evals++
			if ok, _ := safeVerify(keys[i], vals[i], true, p); !ok {
				report("completeness.member", fmt.Sprintf("tree=%d key=%d: honest membership proof rejected", tr, i))
			}
		}
		// absent keys
		for j := 0; j < 4; j++ {
			ak := lib.JoinLenPrefix([]byte("p/"), []byte(fmt.Sprintf("absent-%d-%d", tr, j)))
			p, e := s.GetProof(ak)
			if e != nil {
				t.Fatal(e)
			}
			evals++
			if ok, _ := safeVerify(ak, nil, false, p); !ok {
				report("completeness.nonmember", fmt.Sprintf("tree=%d absent=%d: honest non-membership proof rejected", tr, j))
			}
		}
		// soundness: proof for A offered for B
		for a := range keys {
			for b := range keys {
				if a == b {
					continue
				}
				evals++
				nontrivial++
				if ok, _ := safeVerify(keys[b], vals[b], false, proofs[a]); ok {
					report("soundness.nonmember", fmt.Sprintf("tree=%d keys=%d: the honest proof for key %d is accepted as NON-membership of present key %d", tr, n, a, b))
				}
				if ok, _ := safeVerify(keys[b], []byte("forged-value"), true, proofs[a]); ok {
					report("soundness.member", fmt.Sprintf("tree=%d keys=%d: the honest proof for key %d is accepted as membership of (key %d, forged value)", tr, n, a, b))
				}
			}
		}
		s.Close()
	}
	total := 0
	for k, c := range counts {
		fmt.Printf("BOUNDED-SAMPLE %s: %d cases\n", k, c)
		total += c
	}
	fmt.Printf("BOUNDED-SUMMARY name=c16_proofs evaluations=%d distinct_nontrivial=%d violations=%d bound=trees:%d,keys<=%d,absent:4,seed:%d\n", evals, nontrivial, total, trees, maxKeys, seed)
}
