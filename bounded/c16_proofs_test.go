package store

// Bounded stand-in for C16 (labelled: NOT a proof). Runs the REAL store and the REAL GetProof /
// VerifyProof over small random states and checks
//   completeness: a present key has a verifying membership proof, an absent key a verifying
//                 non-membership proof;
//   soundness:    the honest proof produced for key A, offered for ANY other key B, is never accepted
//                 as membership of (B, value) nor as non-membership of a B that is present.
// One key in four is a presence-only marker (empty value), as the state machine writes them.
// Bounds: trees x keys per tree, printed in the summary line.

import (
	"fmt"
	"math/rand"
	"os"
	"strconv"
	"testing"

	"github.com/canopy-network/canopy/lib"
)

func TestVerifBoundedC16(t *testing.T) {
	seed, _ := strconv.ParseInt(os.Getenv("VERIF_SEED"), 10, 64)
	trees, _ := strconv.Atoi(os.Getenv("VERIF_BOUND_TREES"))
	if trees == 0 {
		trees = 6
	}
	const maxKeys = 14
	rng := rand.New(rand.NewSource(seed + 7))
	evals, nontrivial := 0, 0
	counts := map[string]int{}
	report := func(kind, detail string) {
		counts[kind]++
		if counts[kind] <= 2 {
			fmt.Printf("BOUNDED-VIOLATION kind=%s %s\n", kind, detail)
		}
	}
	for tr := 0; tr < trees; tr++ {
		st, err := NewStoreInMemory(lib.NewNullLogger())
		if err != nil {
			t.Fatal(err)
		}
		s := st.(*Store)
		n := 2 + rng.Intn(maxKeys-1)
		keys, vals := [][]byte{}, [][]byte{}
		for i := 0; i < n; i++ {
			k := lib.JoinLenPrefix([]byte("p/"), []byte(fmt.Sprintf("key-%d-%d", tr, i)))
			v := []byte(fmt.Sprintf("val-%d", rng.Intn(1000)))
			if rng.Intn(4) == 0 {
				v = nil // presence-only marker keys (what the state machine writes for committee / delegate membership)
			}
			if e := s.Set(k, v); e != nil {
				t.Fatal(e)
			}
			keys, vals = append(keys, k), append(vals, v)
		}
		root, e := s.Commit()
		if e != nil {
			t.Fatal(e)
		}
		if _, e = s.Root(); e != nil {
			t.Fatal(e)
		}
		safeVerify := func(k, v []byte, member bool, proof []*lib.Node) (ok bool, panicked bool) {
			defer func() {
				if r := recover(); r != nil {
					ok, panicked = false, true
				}
			}()
			ok, err := s.VerifyProof(k, v, member, root, proof)
			if err != nil {
				return false, false
			}
			return ok, false
		}
		proofs := make([][]*lib.Node, n)
		for i := range keys {
			p, e := s.GetProof(keys[i])
			if e != nil {
				t.Fatal(e)
			}
			proofs[i] = p
			evals++
			if ok, _ := safeVerify(keys[i], vals[i], true, p); !ok {
				report("completeness.member", fmt.Sprintf("tree=%d key=%d: honest membership proof rejected", tr, i))
			}
		}
		// absent keys
		for j := 0; j < 4; j++ {
			ak := lib.JoinLenPrefix([]byte("p/"), []byte(fmt.Sprintf("absent-%d-%d", tr, j)))
			p, e := s.GetProof(ak)
			if e != nil {
				t.Fatal(e)
			}
			evals++
			if ok, _ := safeVerify(ak, nil, false, p); !ok {
				report("completeness.nonmember", fmt.Sprintf("tree=%d absent=%d: honest non-membership proof rejected", tr, j))
			}
		}
		// soundness: proof for A offered for B
		for a := range keys {
			for b := range keys {
				if a == b {
					continue
				}
				evals++
				nontrivial++
				if ok, _ := safeVerify(keys[b], vals[b], false, proofs[a]); ok {
					report("soundness.nonmember", fmt.Sprintf("tree=%d keys=%d: the honest proof for key %d is accepted as NON-membership of present key %d", tr, n, a, b))
				}
				if ok, _ := safeVerify(keys[b], []byte("forged-value"), true, proofs[a]); ok {
					report("soundness.member", fmt.Sprintf("tree=%d keys=%d: the honest proof for key %d is accepted as membership of (key %d, forged value)", tr, n, a, b))
				}
			}
		}
		s.Close()
	}
	total := 0
	for k, c := range counts {
		fmt.Printf("BOUNDED-SAMPLE %s: %d cases\n", k, c)
		total += c
	}
	fmt.Printf("BOUNDED-SUMMARY name=c16_proofs evaluations=%d distinct_nontrivial=%d violations=%d bound=trees:%d,keys<=%d,absent:4,seed:%d\n", evals, nontrivial, total, trees, maxKeys, seed)
}

// TestVerifBoundedC16History: proofs at the Store level over HISTORIES (labelled bounded, NOT a proof). Random
// histories of committed blocks (sets, overwrites, deletes), with rollbacks to an earlier height followed by
// different blocks. At the end, for every retained height v, a read-only store of v must - against the root that
// Commit() returned for v -
//   completeness: prove membership of every key present at v with its value at v, and non-membership of every pool
//                 key absent at v;
//   soundness:    never accept membership of an absent pool key with the value it had on an abandoned branch or at
//                 another height, nor non-membership of a present key.
// The reference state per height is kept by the test itself (a map per height, truncated on rollback).
func TestVerifBoundedC16History(t *testing.T) {
	seed, _ := strconv.ParseInt(os.Getenv("VERIF_SEED"), 10, 64)
	histories, _ := strconv.Atoi(os.Getenv("VERIF_BOUND_HISTORIES"))
	if histories == 0 {
		histories = 12
	}
	const pool, maxBlocks, maxOps = 10, 6, 6
	rng := rand.New(rand.NewSource(seed + 16))
	evals, nontrivial := 0, 0
	counts := map[string]int{}
	report := func(kind, detail string) {
		counts[kind]++
		if counts[kind] <= 2 {
			fmt.Printf("BOUNDED-VIOLATION kind=%s %s\n", kind, detail)
		}
	}
	key := func(i int) []byte { return lib.JoinLenPrefix([]byte("p/"), []byte(fmt.Sprintf("hk-%02d", i))) }
histories:
	for h := 0; h < histories; h++ {
		st, err := NewStoreInMemory(lib.NewNullLogger())
		if err != nil {
			t.Fatal(err)
		}
		s := st.(*Store)
		states := []map[int]string{{}} // states[v]: pool index -> value at height v (states[0] = empty)
		roots := [][]byte{nil}
		everVal := map[int]map[string]bool{} // values a key ever had, on any branch
		var trace []string
		nb := 2 + rng.Intn(maxBlocks-1)
		rolled := false
		for b := 0; b < nb; b++ {
			cur := map[int]string{}
			for k, v := range states[len(states)-1] {
				cur[k] = v
			}
			for i, n := 0, 1+rng.Intn(maxOps); i < n; i++ {
				k := rng.Intn(pool)
				if _, ok := cur[k]; ok && rng.Intn(3) == 0 {
					if e := s.Delete(key(k)); e != nil {
						report("history.error", fmt.Sprintf("history=%d seed=%d: Delete: %v trace=%v", h, seed, e, trace))
						continue histories
					}
					delete(cur, k)
					trace = append(trace, fmt.Sprintf("del %d", k))
				} else {
					v := fmt.Sprintf("v%d-%d-%d", h, b, rng.Intn(100))
					if rng.Intn(5) == 0 {
						v = "" // presence-only marker
					}
					if e := s.Set(key(k), []byte(v)); e != nil {
						report("history.error", fmt.Sprintf("history=%d seed=%d: Set: %v trace=%v", h, seed, e, trace))
						continue histories
					}
					cur[k] = v
					if everVal[k] == nil {
						everVal[k] = map[string]bool{}
					}
					everVal[k][v] = true
					trace = append(trace, fmt.Sprintf("set %d=%s", k, v))
				}
			}
			root, e := s.Commit()
			if e != nil {
				report("history.error", fmt.Sprintf("history=%d seed=%d: Commit: %v trace=%v", h, seed, e, trace))
				continue histories
			}
			states, roots = append(states, cur), append(roots, root)
			trace = append(trace, fmt.Sprintf("commit->%d", len(states)-1))
			// sometimes the memtable is flushed between heights (as background flushes do on a node): the entries of one
			// height then sit in a table of their own, and reads as of a version go through the version filter
			if rng.Intn(2) == 0 {
				if fe := s.DB().Flush(); fe != nil {
					t.Fatal(fe)
				}
				trace = append(trace, "flush")
			}
			// sometimes rewind to an earlier height and continue from there with different blocks
			if len(states) > 2 && rng.Intn(3) == 0 {
				target := 1 + rng.Intn(len(states)-2)
				if e := s.Rollback(uint64(target)); e != nil {
					report("history.error", fmt.Sprintf("history=%d seed=%d: Rollback(%d): %v trace=%v", h, seed, target, e, trace))
					continue histories
				}
				states, roots = states[:target+1], roots[:target+1]
				trace = append(trace, fmt.Sprintf("rollback->%d", target))
				rolled = true
			}
		}
		if rolled {
			nontrivial++
		}
		for v := 1; v < len(states); v++ {
			roI, e := s.NewReadOnly(uint64(v))
			if e != nil {
				report("history.error", fmt.Sprintf("history=%d seed=%d: NewReadOnly(%d): %v trace=%v", h, seed, v, e, trace))
				continue
			}
			ro := roI.(*Store)
			if _, e = ro.Root(); e != nil {
				report("history.error", fmt.Sprintf("history=%d seed=%d: Root() of the read-only store of height %d: %v trace=%v", h, seed, v, e, trace))
				continue
			}
			verify := func(k, val []byte, member bool, proof []*lib.Node) (ok bool) {
				defer func() {
					if r := recover(); r != nil {
						ok = false
					}
				}()
				ok, err := ro.VerifyProof(k, val, member, roots[v], proof)
				return ok && err == nil
			}
			for k := 0; k < pool; k++ {
				var proof []*lib.Node
				var e lib.ErrorI
				func() {
					defer func() {
						if r := recover(); r != nil {
							e = lib.NewError(0, "verif", fmt.Sprintf("GetProof panicked: %v", r))
						}
					}()
					proof, e = ro.GetProof(key(k))
				}()
				if e != nil {
					report("history.getproof", fmt.Sprintf("history=%d seed=%d height=%d key=%d: %v trace=%v", h, seed, v, k, e, trace))
					continue
				}
				evals++
				// what is proven is what the state holds: the read-only view's own Get agrees with the height's state
				if got, ge := ro.Get(key(k)); ge != nil {
					report("history.error", fmt.Sprintf("history=%d seed=%d height=%d key=%d: Get: %v trace=%v", h, seed, v, k, ge, trace))
				} else if val, present := states[v][k]; present != (got != nil) && !(present && val == "" && len(got) == 0) {
					report("history.state", fmt.Sprintf("history=%d seed=%d height=%d key=%d: the state read at this height says present=%v, the history says present=%v - proofs against the committed root would be about a state the store does not hold; trace=%v", h, seed, v, k, got != nil, present, trace))
				} else if present && string(got) != val {
					report("history.state", fmt.Sprintf("history=%d seed=%d height=%d key=%d: value read %q, history says %q; trace=%v", h, seed, v, k, got, val, trace))
				}
				if val, present := states[v][k]; present {
					if !verify(key(k), []byte(val), true, proof) {
						report("history.completeness.member", fmt.Sprintf("history=%d seed=%d height=%d key=%d: membership proof of a present key rejected against the committed root; trace=%v", h, seed, v, k, trace))
					}
					if verify(key(k), nil, false, proof) {
						report("history.soundness.nonmember", fmt.Sprintf("history=%d seed=%d height=%d key=%d: NON-membership of a present key accepted; trace=%v", h, seed, v, k, trace))
					}
				} else {
					if !verify(key(k), nil, false, proof) {
						report("history.completeness.nonmember", fmt.Sprintf("history=%d seed=%d height=%d key=%d: non-membership proof of an absent key rejected against the committed root; trace=%v", h, seed, v, k, trace))
					}
					for old := range everVal[k] {
						if verify(key(k), []byte(old), true, proof) {
							report("history.soundness.member", fmt.Sprintf("history=%d seed=%d height=%d key=%d: membership of an ABSENT key (value %q of another height or an abandoned branch) accepted; trace=%v", h, seed, v, k, old, trace))
						}
					}
				}
			}
			ro.Discard()
		}
		s.Close()
	}
	total := 0
	for k, c := range counts {
		fmt.Printf("BOUNDED-SAMPLE %s: %d cases\n", k, c)
		total += c
	}
	fmt.Printf("BOUNDED-SUMMARY name=c16_history evaluations=%d distinct_nontrivial=%d violations=%d bound=pool:%d,blocks<=%d,ops/block<=%d,histories:%d,seed:%d\n", evals, nontrivial, total, pool, maxBlocks, maxOps, histories, seed)
}
