package lib

// Bounded stand-in for C19 (labelled: NOT a proof; exhaustive over the message schema up to the stated
// nesting depth). For each consensus-critical message type (Transaction, Block, QuorumCertificate) a
// message is built in which every message-typed field (singular, list element, map value) down to
// depth 4 is populated (once with all other fields empty, once with every scalar, string, bytes and enum field set
// as well); then, for EVERY such nested message in turn, an unknown protobuf field is
// planted in that one place and the encoded bytes are fed to the real lib.Unmarshal, which must reject
// them (an accepted unknown field gives a second encoding - and a second identity hash - of the same
// signed content).

import (
	"fmt"
	"testing"

	"google.golang.org/protobuf/encoding/protowire"
	"google.golang.org/protobuf/proto"
	"google.golang.org/protobuf/reflect/protoreflect"
)

type verifNode struct {
	msg  protoreflect.Message
	path string
}

func verifPopulate(m protoreflect.Message, path string, depth int, nodes *[]verifNode) {
	*nodes = append(*nodes, verifNode{m, path})
	if depth >= 4 {
		return
	}
	fds := m.Descriptor().Fields()
	for i := 0; i < fds.Len(); i++ {
		fd := fds.Get(i)
		if fd.Kind() != protoreflect.MessageKind && fd.Kind() != protoreflect.GroupKind {
			continue
		}
		p := path + "." + string(fd.Name())
		switch {
		case fd.IsMap():
			if fd.MapValue().Kind() != protoreflect.MessageKind {
				continue
			}
			mp := m.Mutable(fd).Map()
			val := mp.NewValue()
			verifPopulate(val.Message(), p+"{}", depth+1, nodes)
			mp.Set(fd.MapKey().Default().MapKey(), val)
		case fd.IsList():
			l := m.Mutable(fd).List()
			el := l.NewElement()
			verifPopulate(el.Message(), p+"[0]", depth+1, nodes)
			l.Append(el)
		default:
			verifPopulate(m.Mutable(fd).Message(), p, depth+1, nodes)
		}
	}
}

// verifFillScalars gives every scalar, string, bytes and enum field of m (lists: one element) a non-default value, so
// that the message looks like real traffic: the decoder's walk meets populated non-message fields before and between
// the nested messages.
func verifFillScalars(m protoreflect.Message) {
	fds := m.Descriptor().Fields()
	for i := 0; i < fds.Len(); i++ {
		fd := fds.Get(i)
		if fd.IsMap() || fd.Kind() == protoreflect.MessageKind || fd.Kind() == protoreflect.GroupKind {
			continue
		}
		if fd.ContainingOneof() != nil && !fd.HasOptionalKeyword() {
			continue
		}
		var v protoreflect.Value
		switch fd.Kind() {
		case protoreflect.BoolKind:
			v = protoreflect.ValueOfBool(true)
		case protoreflect.StringKind:
			v = protoreflect.ValueOfString("x")
		case protoreflect.BytesKind:
			v = protoreflect.ValueOfBytes([]byte{1})
		case protoreflect.EnumKind:
			ev := fd.Enum().Values()
			v = protoreflect.ValueOfEnum(ev.Get(ev.Len() - 1).Number())
		case protoreflect.Int32Kind, protoreflect.Sint32Kind, protoreflect.Sfixed32Kind:
			v = protoreflect.ValueOfInt32(1)
		case protoreflect.Uint32Kind, protoreflect.Fixed32Kind:
			v = protoreflect.ValueOfUint32(1)
		case protoreflect.Int64Kind, protoreflect.Sint64Kind, protoreflect.Sfixed64Kind:
			v = protoreflect.ValueOfInt64(1)
		case protoreflect.Uint64Kind, protoreflect.Fixed64Kind:
			v = protoreflect.ValueOfUint64(1)
		case protoreflect.FloatKind:
			v = protoreflect.ValueOfFloat32(1)
		case protoreflect.DoubleKind:
			v = protoreflect.ValueOfFloat64(1)
		default:
			continue
		}
		if fd.IsList() {
			m.Mutable(fd).List().Append(v)
		} else {
			m.Set(fd, v)
		}
	}
}

func TestVerifBoundedC19(t *testing.T) {
	unknown := protowire.AppendVarint(protowire.AppendTag(nil, 9999, protowire.VarintType), 1)
	evals, nontrivial, viol := 0, 0, 0
	for round, mk := range []func() proto.Message{
		func() proto.Message { return new(Transaction) },
		func() proto.Message { return new(Block) },
		func() proto.Message { return new(QuorumCertificate) },
		// second pass: the same three types with every scalar / bytes / string / enum field populated as well
		func() proto.Message { return new(Transaction) },
		func() proto.Message { return new(Block) },
		func() proto.Message { return new(QuorumCertificate) },
	} {
		top := mk()
		var nodes []verifNode
		verifPopulate(top.ProtoReflect(), string(top.ProtoReflect().Descriptor().Name()), 0, &nodes)
		if round >= 3 {
			for _, n := range nodes {
				verifFillScalars(n.msg)
			}
		}
		// sanity: the fully populated message without unknown fields must decode
		clean, err := proto.Marshal(top)
		if err != nil {
			t.Fatal(err)
		}
		if e := Unmarshal(clean, mk()); e != nil {
			fmt.Printf("BOUNDED-SAMPLE %s: populated message without unknown fields is rejected (%v) - paths below are not informative\n", top.ProtoReflect().Descriptor().Name(), e)
		}
		for _, n := range nodes {
			n.msg.SetUnknown(unknown)
			bz, err := proto.Marshal(top)
			n.msg.SetUnknown(nil)
			if err != nil {
				t.Fatal(err)
			}
			evals++
			if n.path != string(top.ProtoReflect().Descriptor().Name()) {
				nontrivial++
			}
			if e := Unmarshal(bz, mk()); e == nil {
				viol++
				fmt.Printf("BOUNDED-VIOLATION kind=accepted path=%s: an unknown field planted inside this nested message is accepted by lib.Unmarshal\n", n.path)
			}
		}
		fmt.Printf("BOUNDED-SAMPLE %s: %d nested message positions checked\n", top.ProtoReflect().Descriptor().Name(), len(nodes))
	}
	fmt.Printf("BOUNDED-SUMMARY name=c19_unknown_fields evaluations=%d distinct_nontrivial=%d violations=%d bound=types:3,depth<=4,exhaustive-over-schema-paths,scalars:empty+populated\n", evals, nontrivial, viol)
}
