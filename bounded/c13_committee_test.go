package fsm

// Bounded stand-in for C13 (labelled: NOT a proof). Random validator populations are written into a REAL state machine
// (records through SetValidator, caps through the validator parameters) and the derived committee and delegate set of
// every chain are compared with a reference computed by this test from its own copy of the records:
//   members  = registered for the chain, of the right kind, neither paused nor unstaking - zero stake included,
//   order    = stake descending, ties by address descending (the order the code documents; every node must agree),
//   cut      = the first min(cap, n) of them (cap 0 = all; committee cap / delegate cap from the parameters),
//   power    = stake; total = sum; threshold = floor(2*total/3)+1.
// The population is then committed, the chain moves on and CHANGES, and the committee of the committed height is asked
// for again - twice (the second answer comes from the shared historical cache): it must still be the old one.
// Bounds: populations x validators per population x caps, printed in the summary line.

import (
	"bytes"
	"fmt"
	"math/rand"
	"os"
	"sort"
	"strconv"
	"testing"

	"github.com/canopy-network/canopy/lib"
)

func verifC13Reference(pop []*Validator, chain uint64, delegate bool, limit uint64) (members []*Validator, total uint64) {
	for _, v := range pop {
		if v.Delegate != delegate || v.MaxPausedHeight != 0 || v.UnstakingHeight != 0 {
			continue
		}
		in := false
		for _, c := range v.Committees {
			if c == chain {
				in = true
			}
		}
		if in {
			members = append(members, v)
		}
	}
	sort.SliceStable(members, func(i, j int) bool {
		if members[i].StakedAmount != members[j].StakedAmount {
			return members[i].StakedAmount > members[j].StakedAmount
		}
		return bytes.Compare(members[i].Address, members[j].Address) > 0
	})
	if limit != 0 && uint64(len(members)) > limit {
		members = members[:limit]
	}
	for _, m := range members {
		total += m.StakedAmount
	}
	return
}

func verifC13Compare(got lib.ValidatorSet, err lib.ErrorI, want []*Validator, total uint64) string {
	if len(want) == 0 {
		// an empty set is reported as an error by the code ("no validators"): accept an error or an empty set
		if err != nil || got.ValidatorSet == nil || len(got.ValidatorSet.ValidatorSet) == 0 {
			return ""
		}
		return fmt.Sprintf("expected no members, got %d", len(got.ValidatorSet.ValidatorSet))
	}
	if total == 0 && err != nil {
		// a set without any voting power cannot decide anything: the code reports it as "no validators" as well
		return ""
	}
	if err != nil {
		return fmt.Sprintf("error %v, expected %d members", err, len(want))
	}
	if got.ValidatorSet == nil || len(got.ValidatorSet.ValidatorSet) != len(want) {
		n := 0
		if got.ValidatorSet != nil {
			n = len(got.ValidatorSet.ValidatorSet)
		}
		return fmt.Sprintf("%d members, expected %d", n, len(want))
	}
	for i, w := range want {
		g := got.ValidatorSet.ValidatorSet[i]
		if !bytes.Equal(g.PublicKey, w.PublicKey) {
			return fmt.Sprintf("member %d is not the expected validator (stake %d expected)", i, w.StakedAmount)
		}
		if g.VotingPower != w.StakedAmount {
			return fmt.Sprintf("member %d has voting power %d, stake is %d", i, g.VotingPower, w.StakedAmount)
		}
	}
	if got.TotalPower != total {
		return fmt.Sprintf("total power %d, expected %d", got.TotalPower, total)
	}
	if got.MinimumMaj23 != 2*total/3+1 {
		return fmt.Sprintf("threshold %d, expected %d", got.MinimumMaj23, 2*total/3+1)
	}
	if got.NumValidators != uint64(len(want)) {
		return fmt.Sprintf("NumValidators %d, expected %d", got.NumValidators, len(want))
	}
	return ""
}

func TestVerifBoundedC13(t *testing.T) {
	seed, _ := strconv.ParseInt(os.Getenv("VERIF_SEED"), 10, 64)
	pops, _ := strconv.Atoi(os.Getenv("VERIF_BOUND_POPULATIONS"))
	if pops == 0 {
		pops = 40
	}
	const maxVals = 8 // the package's test key groups
	rng := rand.New(rand.NewSource(seed + 13))
	chains := []uint64{lib.CanopyChainId, lib.CanopyChainId + 1}
	evals, nontrivial := 0, 0
	counts := map[string]int{}
	report := func(kind, detail string) {
		counts[kind]++
		if counts[kind] <= 2 {
			fmt.Printf("BOUNDED-VIOLATION kind=%s %s\n", kind, detail)
		}
	}
	stakes := []uint64{0, 0, 1, 5, 5, 5, 7, 100}
	caps := []uint64{0, 1, 2, 3, 50}
	for p := 0; p < pops; p++ {
		sm := newTestStateMachine(t)
		params, err := sm.GetParamsVal()
		if err != nil {
			t.Fatal(err)
		}
		params.MaxCommitteeSize, params.MaximumDelegatesPerCommittee = caps[rng.Intn(len(caps))], caps[rng.Intn(len(caps))]
		if err = sm.SetParamsVal(params); err != nil {
			t.Fatal(err)
		}
		n := rng.Intn(maxVals + 1)
		var pop []*Validator
		for i := 0; i < n; i++ {
			kg := newTestKeyGroup(t, i)
			v := &Validator{Address: kg.Address.Bytes(), PublicKey: kg.PublicKey.Bytes(), Output: kg.Address.Bytes(),
				StakedAmount: stakes[rng.Intn(len(stakes))], Delegate: rng.Intn(3) == 0}
			switch rng.Intn(4) {
			case 0:
				v.Committees = []uint64{chains[0]}
			case 1:
				v.Committees = []uint64{chains[1]}
			default:
				v.Committees = []uint64{chains[0], chains[1]}
			}
			switch rng.Intn(6) {
			case 0:
				v.UnstakingHeight = 9
			case 1:
				if !v.Delegate {
					v.MaxPausedHeight = 9
				}
			}
			if err = sm.SetValidator(v); err != nil {
				t.Fatal(err)
			}
			pop = append(pop, v)
		}
		desc := fmt.Sprintf("population=%d seed=%d n=%d committeeCap=%d delegateCap=%d", p, seed, n, params.MaxCommitteeSize, params.MaximumDelegatesPerCommittee)
		for _, chain := range chains {
			wantC, totC := verifC13Reference(pop, chain, false, params.MaxCommitteeSize)
			gotC, e := sm.GetCommitteeMembers(chain)
			evals++
			if len(wantC) > 1 {
				nontrivial++
			}
			if msg := verifC13Compare(gotC, e, wantC, totC); msg != "" {
				report("committee", fmt.Sprintf("%s chain=%d: %s", desc, chain, msg))
			}
			wantD, totD := verifC13Reference(pop, chain, true, params.MaximumDelegatesPerCommittee)
			gotD, e := sm.GetDelegates(chain)
			evals++
			if msg := verifC13Compare(gotD, e, wantD, totD); msg != "" {
				report("delegates", fmt.Sprintf("%s chain=%d: %s", desc, chain, msg))
			}
		}
		// commit this height; the chain then moves on and changes (stakes shuffled, a validator paused, one added)
		if _, e := sm.Store().(lib.StoreI).Commit(); e != nil {
			t.Fatal(e)
		}
		past := sm.height
		sm.height++
		sm.ResetCaches()
		for i, v := range pop {
			c := *v
			c.StakedAmount = stakes[rng.Intn(len(stakes))] + uint64(i)
			if i%3 == 0 && !c.Delegate {
				c.MaxPausedHeight = 99
			}
			if e := sm.SetValidator(&c); e != nil {
				t.Fatal(e)
			}
		}
		// ... and those changes are committed as well (one or two further heights), so that the height asked about
		// is strictly below the tip and is answered from the historical partition of the store
		for extra, nExtra := 0, 1+rng.Intn(2); extra < nExtra; extra++ {
			if _, e := sm.Store().(lib.StoreI).Commit(); e != nil {
				t.Fatal(e)
			}
			sm.height++
			sm.ResetCaches()
			if extra+1 < nExtra {
				for i, v := range pop {
					c := *v
					c.StakedAmount = stakes[rng.Intn(len(stakes))] + uint64(2*i+1)
					if e := sm.SetValidator(&c); e != nil {
						t.Fatal(e)
					}
				}
			}
		}
		for round := 0; round < 2; round++ {
			for _, chain := range chains {
				wantC, totC := verifC13Reference(pop, chain, false, params.MaxCommitteeSize)
				got, e := sm.LoadCommittee(chain, past)
				evals++
				if msg := verifC13Compare(got, e, wantC, totC); msg != "" {
					report("historical", fmt.Sprintf("%s chain=%d height=%d ask=%d: %s", desc, chain, past, round+1, msg))
				}
			}
		}
	}
	total := 0
	for k, c := range counts {
		fmt.Printf("BOUNDED-SAMPLE %s: %d cases\n", k, c)
		total += c
	}
	fmt.Printf("BOUNDED-SUMMARY name=c13_committee evaluations=%d distinct_nontrivial=%d violations=%d bound=populations:%d,validators<=%d,caps:0/1/2/3/50,chains:2,seed:%d\n", evals, nontrivial, total, pops, maxVals, seed)
}
