package store

// Bounded stand-in for C08 (labelled: NOT a proof). Runs the REAL store (Set/Delete/Commit through the
// public API, hence the real sparse Merkle tree with sequential and parallel commits) over randomly
// generated histories of blocks and checks history independence of the state root: the root after a
// history equals the root of a fresh store that receives the final key/value set in a single block. Between the
// blocks of a history, candidate blocks are applied, their root is read and they are discarded (Reset), and empty
// blocks are committed, and the chain is sometimes rolled back to an earlier height before it continues: none of that may
// change the root of the state finally reached.
// Histories alternate between a densely populated tree and a sparse one (few leaves per subtree, then blocks above
// the parallel threshold that delete them).
// Bounds: key pool size, blocks per history, ops per block and number of histories are printed.

import (
	"bytes"
	"fmt"
	"math/rand"
	"os"
	"sort"
	"strconv"
	"strings"
	"testing"

	"github.com/canopy-network/canopy/lib"
)

type verifOp struct {
	Key string
	Val string // "" = delete, verifEmpty = set with an empty value
}

const verifEmpty = "<empty>"


// verifScan reads the whole committed state back through the store's iterator (key -> value, keys as the test names them)
func verifScan(t *testing.T, s *Store) map[string]string {
	out := map[string]string{}
	prefix := lib.JoinLenPrefix([]byte("k/"))
	it, e := s.Iterator(prefix)
	if e != nil {
		t.Fatal(e)
	}
	defer it.Close()
	for ; it.Valid(); it.Next() {
		segs := lib.DecodeLengthPrefixed(it.Key())
		if len(segs) != 2 {
			out[fmt.Sprintf("?%x", it.Key())] = string(it.Value())
			continue
		}
		out[string(segs[1])] = string(it.Value())
	}
	return out
}

// verifLastScan: the state scanned at the end of the last verifApply
var verifLastScan map[string]string

// verifLastGets: a point read of every key the last verifApply ever touched (nil = not found / empty)
var verifLastGets map[string][]byte

// verifKey: the store key of a test key name. "key-007" is one component under "k/"; "key-007/c" is the same key followed
// by a further component - its encoding has the encoding of "key-007" as a strict byte prefix (parent and child keys, as
// the state machine's composite keys are)
func verifKey(name string) []byte {
	parts := [][]byte{[]byte("k/")}
	for _, c := range strings.Split(name, "/") {
		parts = append(parts, []byte(c))
	}
	return lib.JoinLenPrefix(parts...)
}

func verifApply(t *testing.T, blocks [][]verifOp) ([]byte, map[string]string) {
	st, err := NewStoreInMemory(lib.NewNullLogger())
	if err != nil {
		t.Fatal(err)
	}
	s := st.(*Store)
	defer s.Close()
	final := map[string]string{}
	snaps := map[uint64]map[string]string{} // committed state per height (for rollbacks)
	verifTrace = verifTrace[:0]
	snap := func() {
		c := map[string]string{}
		for k, v := range final {
			c[k] = v
		}
		snaps[s.Version()] = c
	}
	var root []byte
	touched := map[string]bool{}
	for _, blk := range blocks {
		for _, op := range blk {
			k := verifKey(op.Key)
			touched[op.Key] = true
			if op.Val == "" {
				if e := s.Delete(k); e != nil {
					t.Fatal(e)
				}
				delete(final, op.Key)
			} else {
				val := []byte(op.Val)
				if op.Val == verifEmpty {
					val = nil // a presence-only key (what the state machine writes for committee / delegate membership)
				}
				if e := s.Set(k, val); e != nil {
					t.Fatal(e)
				}
				final[op.Key] = op.Val
			}
		}
		var e lib.ErrorI
		root, e = s.Commit()
		if e != nil {
			t.Fatal(e)
		}
		snap()
		verifTrace = append(verifTrace, fmt.Sprintf("commit->%d(%d ops)", s.Version(), len(blk)))
		// sometimes the chain is rewound to an earlier height and continues from there: the blocks that follow are
		// committed on top of the state of that height, and the rolled-back blocks must leave no trace in any root
		if verifSpec != nil && s.Version() >= 2 && verifSpec.Intn(4) == 0 {
			target := 1 + uint64(verifSpec.Intn(int(s.Version())-1))
			if e := s.Rollback(target); e != nil {
				t.Fatal(e)
			}
			verifTrace = append(verifTrace, fmt.Sprintf("rollback->%d", target))
			final = map[string]string{}
			for k, v := range snaps[target] {
				final[k] = v
			}
			// (the root is computed once per block and cached until the store is reset or committed: read it the way
			// the node does - Root(), then Reset() - so that the blocks that follow start from a clean store)
			if root, e = s.Root(); e != nil {
				t.Fatal(e)
			}
			s.Reset()
		}
		// speculation: a candidate block is applied, its root is read, and the candidate is thrown away (what a
		// validator does with a proposal it does not commit); sometimes an EMPTY block is committed right after.
		// Neither may influence any committed root: the state is unchanged.
		if verifSpec != nil && verifSpec.Intn(2) == 0 {
			for i, n := 0, 1+verifSpec.Intn(6); i < n; i++ {
				k := lib.JoinLenPrefix([]byte("k/"), []byte(fmt.Sprintf("key-%03d", verifSpec.Intn(220))))
				if verifSpec.Intn(3) == 0 {
					s.Delete(k)
				} else {
					s.Set(k, []byte(fmt.Sprintf("spec-%d", verifSpec.Intn(1000))))
				}
			}
			if _, e := s.Root(); e != nil {
				t.Fatal(e)
			}
			s.Reset()
			verifTrace = append(verifTrace, "speculate+reset")
			if verifSpec.Intn(2) == 0 {
				if root, e = s.Commit(); e != nil {
					t.Fatal(e)
				}
				snap()
				verifTrace = append(verifTrace, fmt.Sprintf("emptycommit->%d", s.Version()))
			}
		}
	}
	verifLastScan = verifScan(t, s)
	verifLastGets = map[string][]byte{}
	for name := range touched {
		v, e := s.Get(verifKey(name))
		if e != nil {
			t.Fatal(e)
		}
		verifLastGets[name] = v
	}
	return root, final
}

// verifTrace: the commits, rollbacks and speculations of the last verifApply (printed with a violation)
var verifTrace []string

// verifSpec, when set, makes verifApply interleave discarded speculative blocks and empty blocks
var verifSpec *rand.Rand

func TestVerifBoundedC08(t *testing.T) {
	seed, _ := strconv.ParseInt(os.Getenv("VERIF_SEED"), 10, 64)
	histories, _ := strconv.Atoi(os.Getenv("VERIF_BOUND_HISTORIES"))
	if histories == 0 {
		histories = 30
	}
	const pool, maxBlocks, maxOps = 220, 5, 48
	rng := rand.New(rand.NewSource(seed + 1))
	evals, nontrivial, viol := 0, 0, 0
	for h := 0; h < histories; h++ {
		nb := 2 + rng.Intn(maxBlocks-1)
		var blocks [][]verifOp
		present := map[string]bool{}
		// first block populates the tree
		var first []verifOp
		// two regimes: a densely populated tree, and a SPARSE one (a handful of leaves, so that whole subtrees hold
		// one or two leaves next to their borders) that is then hit by blocks above the parallel threshold
		sparse := h%2 == 1
		// a third regime (every fourth history, dense): PARENT / CHILD keys - a key whose encoding is a strict byte prefix
		// of another key's - drawn from a small pool so that both are often present and one of them gets deleted
		nested := h%4 == 2
		draw := func() string {
			if !nested {
				return fmt.Sprintf("key-%03d", rng.Intn(pool))
			}
			k := fmt.Sprintf("key-%03d", rng.Intn(24))
			if rng.Intn(2) == 0 {
				k += "/c"
			}
			return k
		}
		nFirst := 60 + rng.Intn(pool-60)
		if sparse {
			nFirst = 1 + rng.Intn(12)
		}
		for i := 0; i < nFirst; i++ {
			k := draw()
			first = append(first, verifOp{k, fmt.Sprintf("v0-%d", rng.Intn(1000))})
			present[k] = true
		}
		blocks = append(blocks, first)
		for b := 1; b < nb; b++ {
			n := 1 + rng.Intn(maxOps) // below and above the parallel threshold (16)
			var blk []verifOp
			if sparse {
				// delete most of what is present, and pad with fresh keys up to the parallel threshold
				n = 17 + rng.Intn(16)
				var have []string
				for k := range present {
					have = append(have, k)
				}
				sort.Strings(have)
				for _, k := range have {
					if rng.Intn(3) != 0 {
						blk = append(blk, verifOp{k, ""})
						delete(present, k)
					}
				}
			}
			for i := len(blk); i < n; i++ {
				k := draw()
				switch r := rng.Intn(10); {
				case r < 5: // overwrite / insert (one in six with an EMPTY value: a presence-only key)
					v := fmt.Sprintf("v%d-%d", b, rng.Intn(1000))
					if rng.Intn(6) == 0 {
						v = verifEmpty
					}
					blk = append(blk, verifOp{k, v})
					present[k] = true
				case r < 8 && present[k]: // delete
					blk = append(blk, verifOp{k, ""})
					delete(present, k)
				default:
					blk = append(blk, verifOp{k, fmt.Sprintf("w%d-%d", b, rng.Intn(1000))})
					present[k] = true
				}
			}
			blocks = append(blocks, blk)
		}
		verifSpec = rand.New(rand.NewSource(seed*1000 + int64(h)))
		root, final := verifApply(t, blocks)
		trace := append([]string(nil), verifTrace...)
		verifSpec = nil
		scan := verifLastScan
		gets := verifLastGets
		// reference: the final state in ONE block on a fresh store (sorted for reproducibility)
		var keys []string
		for k := range final {
			keys = append(keys, k)
		}
		sort.Strings(keys)
		var one []verifOp
		for _, k := range keys {
			one = append(one, verifOp{k, final[k]})
		}
		ref, _ := verifApply(t, [][]verifOp{one})
		evals++
		// the root is the commitment of the state AS STORED: what a full scan of the committed state returns is exactly
		// the key/value set the history ends in (presence-only keys included)
		// (with parent / child keys the scan is replaced by point reads: forward iteration over such keys is incomplete on
		// the unchanged tree - known finding F8 under C10 - and must not be reported here)
		if nested {
			for k, got := range gets {
				want, ok := final[k]
				if ok && want == verifEmpty {
					continue // a presence-only key reads like an absent one
				}
				if (ok && string(got) != want) || (!ok && len(got) != 0) {
					viol++
					fmt.Printf("BOUNDED-VIOLATION kind=stateget history=%d seed=%d key=%q: the committed state holds %q, the history ends in %q (present=%v) - the committed root does not commit to the state as stored; trace=%v\n", h, seed, k, got, want, ok, trace)
					break
				}
			}
		}
		scanOK := nested || len(scan) == len(final)
		for k, v := range final {
			if nested {
				break
			}
			want := v
			if v == verifEmpty {
				want = ""
			}
			if got, ok := scan[k]; !ok || got != want {
				scanOK = false
			}
		}
		if !scanOK {
			viol++
			fmt.Printf("BOUNDED-VIOLATION kind=statescan history=%d seed=%d: a scan of the committed state returns %d keys, the history ends in %d keys (or values differ) - the committed root does not commit to the state as stored; trace=%v\n", h, seed, len(scan), len(final), trace)
		}
		if len(final) >= 2 && nb >= 2 {
			nontrivial++
		}
		if !bytes.Equal(root, ref) {
			viol++
			fmt.Printf("BOUNDED-VIOLATION history=%d seed=%d blocks=%d finalKeys=%d root=%x reference=%x trace=%v\n", h, seed, nb, len(final), root, ref, trace)
			for bi, blk := range blocks {
				fmt.Printf("BOUNDED-HISTORY history=%d block=%d ops=%d %v\n", h, bi, len(blk), blk)
			}
			if viol >= 3 {
				break
			}
		}
	}
	fmt.Printf("BOUNDED-SUMMARY name=c08_history evaluations=%d distinct_nontrivial=%d violations=%d bound=pool:%d,blocks<=%d,ops/block<=%d,histories:%d,seed:%d\n", evals, nontrivial, viol, pool, maxBlocks, maxOps, histories, seed)
}
