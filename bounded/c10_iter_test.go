package store

// Bounded stand-in for C10 (labelled: NOT a proof): merged iteration of a store transaction over its parent.
// The REAL store is driven through random scenarios - committed blocks, then pending (un-committed) sets and
// deletes, then a nested transaction with more pending operations - over a small hierarchical key pool in
// which iteration prefixes are themselves keys. For every prefix, forward and reverse iteration (keys and
// values) and every point read, on the store and on the nested transaction, are compared with a plain sorted
// map; discarding the nested transaction must restore the outer view. Bounds are printed.
//
// Three regimes, reported under different violation kinds:
//   leaf     all keys are leaves (no key is a byte-prefix of another): the store's documented domain
//   overlay  committed keys are leaves, but the pending / nested overlays also hold "directory" keys that are
//            prefixes of other keys (exercises the in-memory merge, which has no such restriction)
//   nestedcommitted  directory keys are committed too: the versioned on-disk layout interleaves the versions of
//            a key with its descendants, so iteration is incomplete there (a recorded known finding)

import (
	"fmt"
	"math/rand"
	"os"
	"sort"
	"strconv"
	"strings"
	"testing"

	"github.com/canopy-network/canopy/lib"
)

func verifC10Pool() (leaves, dirs [][]byte) {
	alpha := []string{"a", "b", "c"}
	for _, x := range alpha {
		dirs = append(dirs, lib.JoinLenPrefix([]byte(x)))
		for _, y := range alpha {
			dirs = append(dirs, lib.JoinLenPrefix([]byte(x), []byte(y)))
			for _, z := range alpha[:2] {
				leaves = append(leaves, lib.JoinLenPrefix([]byte(x), []byte(y), []byte(z)))
			}
		}
	}
	return
}

type verifKV struct{ k, v string }

func verifC10Expect(model map[string]string, prefix string, reverse bool) (out []verifKV) {
	for k, v := range model {
		if strings.HasPrefix(k, prefix) {
			out = append(out, verifKV{k, v})
		}
	}
	sort.Slice(out, func(i, j int) bool {
		if reverse {
			return out[i].k > out[j].k
		}
		return out[i].k < out[j].k
	})
	return
}

func verifC10Collect(it lib.IteratorI, e lib.ErrorI) (out []verifKV, err error) {
	if e != nil {
		return nil, e
	}
	defer it.Close()
	for n := 0; it.Valid(); it.Next() {
		out = append(out, verifKV{string(it.Key()), string(it.Value())})
		if n++; n > 10000 {
			return out, fmt.Errorf("iterator does not terminate")
		}
	}
	return
}

func verifC10Same(a, b []verifKV) bool {
	if len(a) != len(b) {
		return false
	}
	for i := range a {
		if a[i] != b[i] {
			return false
		}
	}
	return true
}

func TestVerifBoundedC10(t *testing.T) {
	seed, _ := strconv.ParseInt(os.Getenv("VERIF_SEED"), 10, 64)
	scenarios, _ := strconv.Atoi(os.Getenv("VERIF_BOUND_SCENARIOS"))
	if scenarios == 0 {
		scenarios = 40
	}
	rng := rand.New(rand.NewSource(seed + 7))
	leaves, dirs := verifC10Pool()
	full := append(append([][]byte{}, leaves...), dirs...)
	pool := full
	prefixes := append([][]byte{nil}, full...)
	regimes := []string{"leaf", "overlay", "nestedcommitted"}
	evals, nontrivial, viol := 0, 0, 0
	regime := ""
	shown := map[string]int{}
	report := func(kind, what string) {
		viol++
		kind = regime + "." + kind
		if shown[kind]++; shown[kind] <= 3 {
			fmt.Printf("BOUNDED-VIOLATION kind=%s %s\n", kind, what)
		}
	}
	for sc := 0; sc < scenarios; sc++ {
		regime = regimes[sc%len(regimes)]
		committedPool, overlayPool := leaves, leaves
		switch regime {
		case "overlay":
			overlayPool = full
		case "nestedcommitted":
			committedPool, overlayPool = full, full
		}
		st, err := NewStoreInMemory(lib.NewNullLogger())
		if err != nil {
			t.Fatal(err)
		}
		s := st.(*Store)
		model := map[string]string{}
		var hist []string
		apply := func(w lib.RWStoreI, m map[string]string, n int, tag string, from [][]byte) {
			for i := 0; i < n; i++ {
				k := from[rng.Intn(len(from))]
				if rng.Intn(4) == 0 {
					if e := w.Delete(k); e != nil {
						t.Fatal(e)
					}
					delete(m, string(k))
					hist = append(hist, fmt.Sprintf("%s del %x", tag, k))
				} else {
					v := fmt.Sprintf("v%d.%d", sc, rng.Intn(1000))
					if e := w.Set(k, []byte(v)); e != nil {
						t.Fatal(e)
					}
					m[string(k)] = v
					hist = append(hist, fmt.Sprintf("%s set %x=%s", tag, k, v))
				}
			}
		}
		for b, nb := 0, rng.Intn(3); b < nb; b++ {
			apply(s, model, 1+rng.Intn(8), fmt.Sprintf("block%d", b), committedPool)
			if _, e := s.Commit(); e != nil {
				t.Fatal(e)
			}
		}
		apply(s, model, rng.Intn(10), "pending", overlayPool)
		check := func(r lib.RWStoreI, m map[string]string, where string) {
			for _, p := range prefixes {
				for _, rev := range []bool{false, true} {
					var got []verifKV
					var e error
					if rev {
						got, e = verifC10Collect(r.RevIterator(p))
					} else {
						got, e = verifC10Collect(r.Iterator(p))
					}
					want := verifC10Expect(m, string(p), rev)
					evals++
					if len(want) > 1 {
						nontrivial++
					}
					if e != nil || !verifC10Same(got, want) {
						report("iteration", fmt.Sprintf("%s prefix=%x reverse=%v: got %d entries %v, want %d entries (err %v)", where, p, rev, len(got), verifKeys(got), len(want), e))
						if shown[regime+".iteration"] <= 3 {
							fmt.Printf("BOUNDED-HISTORY %s\n", strings.Join(hist, "; "))
						}
					}
				}
			}
			for _, k := range pool {
				v, e := r.Get(k)
				want, ok := m[string(k)]
				evals++
				if e != nil || (ok && string(v) != want) || (!ok && v != nil) {
					report("pointread", fmt.Sprintf("%s key=%x got %q want %q present=%v", where, k, v, want, ok))
				}
			}
		}
		check(s, model, "store")
		nested := s.NewTxn()
		nm := map[string]string{}
		for k, v := range model {
			nm[k] = v
		}
		apply(nested, nm, rng.Intn(8), "nested", overlayPool)
		check(nested, nm, "nested")
		nested.Discard()
		check(s, model, "after-discard")
		s.Close()
	}
	fmt.Printf("BOUNDED-SAMPLE %d scenarios in 3 regimes (leaf / overlay / nestedcommitted), %d leaf keys + %d directory keys, %d prefixes x forward/reverse x store/nested/after-discard\n", scenarios, len(leaves), len(dirs), len(prefixes))
	fmt.Printf("BOUNDED-SUMMARY name=c10_iter evaluations=%d distinct_nontrivial=%d violations=%d bound=scenarios:%d,pool:%d,blocks<=2,pending<=9,nested<=7\n", evals, nontrivial, viol, scenarios, len(pool))
}

func verifKeys(kv []verifKV) (out []string) {
	for _, x := range kv {
		out = append(out, fmt.Sprintf("%x", x.k))
	}
	return
}

// ===== second runner in the same file (shares the helpers above) =====
// Bounded stand-in for C10 (labelled: NOT a proof): "what a reader observes as of height v never changes once v is
// committed, regardless of later writes, deletes or a rollback to a height >= v". Random histories of 3..6 blocks
// over a pool of leaf keys (no key is a prefix of another), values may be EMPTY, keys are overwritten and deleted
// across blocks. After the history: every committed version is opened read-only and compared (forward and reverse
// iteration, point reads) with the model at that version; then the store is rolled back to a random version and
// must show exactly the model at that version, and keep doing so after one more block is written on top.

func verifC10View(r lib.RStoreI, pool [][]byte) (fwd, rev []verifKV, gets map[string]string, err error) {
	fwd, e1 := verifC10Collect(r.Iterator(nil))
	rev, e2 := verifC10Collect(r.RevIterator(nil))
	if e1 != nil {
		return nil, nil, nil, e1
	}
	if e2 != nil {
		return nil, nil, nil, e2
	}
	gets = map[string]string{}
	for _, k := range pool {
		v, e := r.Get(k)
		if e != nil {
			return nil, nil, nil, e
		}
		if v != nil {
			gets[string(k)] = string(v)
		}
	}
	return
}

func TestVerifBoundedC10History(t *testing.T) {
	seed, _ := strconv.ParseInt(os.Getenv("VERIF_SEED"), 10, 64)
	histories, _ := strconv.Atoi(os.Getenv("VERIF_BOUND_HISTORIES"))
	if histories == 0 {
		histories = 25
	}
	rng := rand.New(rand.NewSource(seed + 13))
	leaves, _ := verifC10Pool()
	evals, nontrivial, viol := 0, 0, 0
	shown := map[string]int{}
	for h := 0; h < histories; h++ {
		st, _, cleanup := testStore(t)
		models := []map[string]string{{}} // models[v] = state as of version v
		cur := map[string]string{}
		var hist []string
		block := func() {
			for i, n := 0, 1+rng.Intn(6); i < n; i++ {
				k := leaves[rng.Intn(len(leaves))]
				switch rng.Intn(5) {
				case 0:
					st.Delete(k)
					delete(cur, string(k))
					hist = append(hist, fmt.Sprintf("v%d del %x", len(models), k))
				case 1:
					st.Set(k, []byte{})
					cur[string(k)] = ""
					hist = append(hist, fmt.Sprintf("v%d set %x=<empty>", len(models), k))
				default:
					v := fmt.Sprintf("h%d.%d", h, rng.Intn(1000))
					st.Set(k, []byte(v))
					cur[string(k)] = v
					hist = append(hist, fmt.Sprintf("v%d set %x=%s", len(models), k, v))
				}
			}
			if _, e := st.Commit(); e != nil {
				t.Fatal(e)
			}
			m := map[string]string{}
			for k, v := range cur {
				m[k] = v
			}
			models = append(models, m)
		}
		for b, nb := 0, 3+rng.Intn(4); b < nb; b++ {
			block()
		}
		compare := func(kind, where string, r lib.RStoreI, m map[string]string) {
			fwd, rev, gets, err := verifC10View(r, leaves)
			evals++
			if len(m) > 1 {
				nontrivial++
			}
			ok := err == nil && verifC10Same(fwd, verifC10Expect(m, "", false)) && verifC10Same(rev, verifC10Expect(m, "", true))
			if ok {
				// point reads: present keys read their value (an empty value may read as empty or nil), absent keys read nil
				for _, k := range leaves {
					want, present := m[string(k)]
					got, has := gets[string(k)]
					if (present && want != "" && (!has || got != want)) || (!present && has) {
						ok = false
					}
				}
			}
			if !ok {
				viol++
				if shown[kind]++; shown[kind] <= 3 {
					fmt.Printf("BOUNDED-VIOLATION kind=%s %s: observed %d forward / %d reverse entries, model has %d (err %v)\n", kind, where, len(fwd), len(rev), len(m), err)
					fmt.Printf("BOUNDED-HISTORY %s\n", strings.Join(hist, "; "))
				}
			}
		}
		top := len(models) - 1
		for v := 1; v <= top; v++ {
			ro, e := st.NewReadOnly(uint64(v))
			if e != nil {
				t.Fatal(e)
			}
			compare("historical", fmt.Sprintf("read-only view at version %d of %d", v, top), ro, models[v])
			ro.Discard()
		}
		target := 1 + rng.Intn(top)
		if e := st.Rollback(uint64(target)); e != nil {
			viol++
			fmt.Printf("BOUNDED-VIOLATION kind=rollback Rollback(%d) of %d failed: %v\n", target, top, e)
		} else {
			hist = append(hist, fmt.Sprintf("rollback to v%d", target))
			compare("rollback", fmt.Sprintf("store after Rollback(%d) from %d", target, top), st, models[target])
			// history goes on from the rolled-back state
			models = models[:target+1]
			cur = map[string]string{}
			for k, v := range models[target] {
				cur[k] = v
			}
			block()
			compare("rollback", fmt.Sprintf("store one block after Rollback(%d)", target), st, models[len(models)-1])
			for v := 1; v < len(models); v++ {
				ro, e := st.NewReadOnly(uint64(v))
				if e != nil {
					t.Fatal(e)
				}
				compare("historical", fmt.Sprintf("read-only view at version %d after rollback", v), ro, models[v])
				ro.Discard()
			}
		}
		cleanup()
	}
	fmt.Printf("BOUNDED-SAMPLE %d histories of 3..6 blocks over %d leaf keys (empty values, overwrites, deletes), every version re-read, one rollback each\n", histories, len(leaves))
	fmt.Printf("BOUNDED-SUMMARY name=c10_history evaluations=%d distinct_nontrivial=%d violations=%d bound=histories:%d,blocks:3..6(+1),keys:%d\n", evals, nontrivial, viol, histories, len(leaves))
}
