package store

// Bounded stand-in for C10 (labelled: NOT a proof): merged iteration of a store transaction over its parent.
// The REAL store is driven through random scenarios - committed blocks, then pending (un-committed) sets and
// deletes, then a nested transaction with more pending operations - over a small hierarchical key pool in
// which iteration prefixes are themselves keys. For every prefix, forward and reverse iteration (keys and
// values) and every point read, on the store and on the nested transaction, are compared with a plain sorted
// map; discarding the nested transaction must restore the outer view. Bounds are printed.
//
// Three regimes, reported under different violation kinds:
//   leaf     all keys are leaves (no key is a byte-prefix of another): the store's documented domain
//   overlay  committed keys are leaves, but the pending / nested overlays also hold "directory" keys that are
//            prefixes of other keys (exercises the in-memory merge, which has no such restriction)
//   nestedcommitted  directory keys are committed too: the versioned on-disk layout interleaves the versions of
//            a key with its descendants, so iteration is incomplete there (a recorded known finding)

import (
	"fmt"
	"math/rand"
	"os"
	"sort"
	"strconv"
	"strings"
	"testing"

	"github.com/canopy-network/canopy/lib"
)

func verifC10Pool() (leaves, dirs [][]byte) {
	alpha := []string{"a", "b", "c"}
	for _, x := range alpha {
		dirs = append(dirs, lib.JoinLenPrefix([]byte(x)))
		for _, y := range alpha {
			dirs = append(dirs, lib.JoinLenPrefix([]byte(x), []byte(y)))
			for _, z := range alpha[:2] {
				leaves = append(leaves, lib.JoinLenPrefix([]byte(x), []byte(y), []byte(z)))
			}
		}
	}
	return
}

type verifKV struct{ k, v string }

func verifC10Expect(model map[string]string, prefix string, reverse bool) (out []verifKV) {
	for k, v := range model {
		if strings.HasPrefix(k, prefix) {
			out = append(out, verifKV{k, v})
		}
	}
	sort.Slice(out, func(i, j int) bool {
		if reverse {
			return out[i].k > out[j].k
		}
		return out[i].k < out[j].k
	})
	return
}

func verifC10Collect(it lib.IteratorI, e lib.ErrorI) (out []verifKV, err error) {
	if e != nil {
		return nil, e
	}
	defer it.Close()
	for n := 0; it.Valid(); it.Next() {
		out = append(out, verifKV{string(it.Key()), string(it.Value())})
		if n++; n > 10000 {
			return out, fmt.Errorf("iterator does not terminate")
		}
	}
	return
}

func verifC10Same(a, b []verifKV) bool {
	if len(a) != len(b) {
		return false
	}
	for i := range a {
		if a[i] != b[i] {
			return false
		}
	}
	return true
}

func TestVerifBoundedC10(t *testing.T) {
	seed, _ := strconv.ParseInt(os.Getenv("VERIF_SEED"), 10, 64)
	scenarios, _ := strconv.Atoi(os.Getenv("VERIF_BOUND_SCENARIOS"))
	if scenarios == 0 {
		scenarios = 40
	}
	rng := rand.New(rand.NewSource(seed + 7))
	leaves, dirs := verifC10Pool()
	full := append(append([][]byte{}, leaves...), dirs...)
	pool := full
	prefixes := append([][]byte{nil}, full...)
	regimes := []string{"leaf", "overlay", "nestedcommitted"}
	evals, nontrivial, viol := 0, 0, 0
	regime := ""
	shown := map[string]int{}
	report := func(kind, what string) {
		viol++
		kind = regime + "." + kind
		if shown[kind]++; shown[kind] <= 3 {
			fmt.Printf("BOUNDED-VIOLATION kind=%s %s\n", kind, what)
		}
	}
	for sc := 0; sc < scenarios; sc++ {
		regime = regimes[sc%len(regimes)]
		committedPool, overlayPool := leaves, leaves
		switch regime {
		case "overlay":
			overlayPool = full
		case "nestedcommitted":
			committedPool, overlayPool = full, full
		}
		st, err := NewStoreInMemory(lib.NewNullLogger())
		if err != nil {
			t.Fatal(err)
		}
		s := st.(*Store)
		model := map[string]string{}
		var hist []string
		apply := func(w lib.RWStoreI, m map[string]string, n int, tag string, from [][]byte) {
			for i := 0; i < n; i++ {
				k := from[rng.Intn(len(from))]
				if rng.Intn(4) == 0 {
					if e := w.Delete(k); e != nil {
						t.Fatal(e)
					}
					delete(m, string(k))
					hist = append(hist, fmt.Sprintf("%s del %x", tag, k))
				} else {
					v := fmt.Sprintf("v%d.%d", sc, rng.Intn(1000))
					if e := w.Set(k, []byte(v)); e != nil {
						t.Fatal(e)
					}
					m[string(k)] = v
					hist = append(hist, fmt.Sprintf("%s set %x=%s", tag, k, v))
				}
			}
		}
		for b, nb := 0, rng.Intn(3); b < nb; b++ {
			apply(s, model, 1+rng.Intn(8), fmt.Sprintf("block%d", b), committedPool)
			if _, e := s.Commit(); e != nil {
				t.Fatal(e)
			}
		}
		apply(s, model, rng.Intn(10), "pending", overlayPool)
		check := func(r lib.RWStoreI, m map[string]string, where string) {
			for _, p := range prefixes {
				for _, rev := range []bool{false, true} {
					var got []verifKV
					var e error
					if rev {
						got, e = verifC10Collect(r.RevIterator(p))
					} else {
						got, e = verifC10Collect(r.Iterator(p))
					}
					want := verifC10Expect(m, string(p), rev)
					evals++
					if len(want) > 1 {
						nontrivial++
					}
					if e != nil || !verifC10Same(got, want) {
						report("iteration", fmt.Sprintf("%s prefix=%x reverse=%v: got %d entries %v, want %d entries (err %v)", where, p, rev, len(got), verifKeys(got), len(want), e))
						if shown[regime+".iteration"] <= 3 {
							fmt.Printf("BOUNDED-HISTORY %s\n", strings.Join(hist, "; "))
						}
					}
				}
			}
			for _, k := range pool {
				v, e := r.Get(k)
				want, ok := m[string(k)]
				evals++
				if e != nil || (ok && string(v) != want) || (!ok && v != nil) {
					report("pointread", fmt.Sprintf("%s key=%x got %q want %q present=%v", where, k, v, want, ok))
				}
			}
		}
		check(s, model, "store")
		nested := s.NewTxn()
		nm := map[string]string{}
		for k, v := range model {
			nm[k] = v
		}
		apply(nested, nm, rng.Intn(8), "nested", overlayPool)
		check(nested, nm, "nested")
		nested.Discard()
		check(s, model, "after-discard")
		s.Close()
	}
	fmt.Printf("BOUNDED-SAMPLE %d scenarios in 3 regimes (leaf / overlay / nestedcommitted), %d leaf keys + %d directory keys, %d prefixes x forward/reverse x store/nested/after-discard\n", scenarios, len(leaves), len(dirs), len(prefixes))
	fmt.Printf("BOUNDED-SUMMARY name=c10_iter evaluations=%d distinct_nontrivial=%d violations=%d bound=scenarios:%d,pool:%d,blocks<=2,pending<=9,nested<=7\n", evals, nontrivial, viol, scenarios, len(pool))
}

func verifKeys(kv []verifKV) (out []string) {
	for _, x := range kv {
		out = append(out, fmt.Sprintf("%x", x.k))
	}
	return
}
